------------------------------ MODULE BTreeGen ------------------------------
(* Binding A for the B-tree: see QueueGen.tla.  TLC prints every behaviour of BTree!Out over Put / Remove /
   Get on the keys 0..MaxKey to the depth bound; the real tree is stepped through each and must answer every
   Get as prescribed (values are the step numbers). *)
EXTENDS BTree, Json, TLC
CONSTANTS Depth, MaxKey
VARIABLES s, hist
Ctor == [n |-> "new", a |-> <<>>]
Ops(v) == { [n |-> "put", a |-> <<k, v>>] : k \in 0..MaxKey } \cup { [n |-> "remove", a |-> <<k>>] : k \in 0..MaxKey }
          \cup { [n |-> "get", a |-> <<k>>] : k \in 0..MaxKey }
Init == \E o \in Out(S0, Ctor) : s = o.st /\ hist = << [op |-> Ctor, res |-> o.res] >>
Next == /\ Len(hist) <= Depth
        /\ \E op \in Ops(Len(hist)) : \E o \in Out(s, op) : s' = o.st /\ hist' = Append(hist, [op |-> op, res |-> o.res])
Spec == Init /\ [][Next]_<<s, hist>>
\* a behaviour is printed once it is complete and ends in a lookup
Emit == (Len(hist) = Depth + 1 /\ hist[Len(hist)].op.n = "get") => PrintT(<<"GEN", ToJson(hist)>>)
=============================================================================
