------------------------------ MODULE StackMC ------------------------------
(***************************************************************************)
(* Exhaustive model check of Stack!Out against the declarative wording of  *)
(* C06.  With UseKF = TRUE the deviation outcomes become actions and the   *)
(* LIFO invariant must FAIL: the known finding really contradicts the      *)
(* property text and the invariant is not vacuous (DESIGN.md 6.2).         *)
(***************************************************************************)
EXTENDS Stack, TLC

CONSTANTS Vals, MaxOps, UseKF

VARIABLES s, res, last, log, nops     \* log: history of <<"push", v>> / <<"pop", v, wasEmpty>>
vars == <<s, res, last, log, nops>>

Ctor == { [n |-> "news", a |-> <<>>] } \cup { [n |-> "newl", a |-> <<v>>] : v \in Vals }
Ops  == { [n |-> "push", a |-> <<v>>] : v \in Vals } \cup { [n |-> "pop", a |-> <<>>] }

AllOut(st, op) == Out(st, op) \cup (IF UseKF THEN { O(o.st, o.res) : o \in KFOut(st, op) } ELSE {})

Init == \E c \in Ctor : \E o \in Out(S0, c) :
          /\ s = o.st /\ res = o.res /\ last = c /\ nops = 0
          /\ log = (IF c.n = "newl" THEN << <<"push", c.a[1]>> >> ELSE <<>>)

Next == /\ nops < MaxOps
        /\ \E op \in Ops : \E o \in AllOut(s, op) :
             /\ s' = o.st /\ res' = o.res /\ last' = op /\ nops' = nops + 1
             /\ log' = Append(log, IF op.n = "push" THEN <<"push", op.a[1]>> ELSE <<"pop", o.res.v>>)
Spec == Init /\ [][Next]_vars

\* Declarative reading of the history: the pushes not yet popped, most recent
\* last, where every pop must take the most recent unpopped push (or, with
\* nothing unpopped, return the zero value).  "bad" marks a history that is
\* not LIFO.
RECURSIVE Unpopped(_, _)
Unpopped(h, acc) ==
    IF h = <<>> THEN [ok |-> TRUE, live |-> acc]
    ELSE LET e == Head(h) IN
         IF e[1] = "push" THEN Unpopped(Tail(h), Append(acc, e[2]))
         ELSE IF acc = <<>> THEN (IF e[2] = 0 THEN Unpopped(Tail(h), acc) ELSE [ok |-> FALSE, live |-> acc])
         ELSE IF e[2] = acc[Len(acc)] THEN Unpopped(Tail(h), SubSeq(acc, 1, Len(acc) - 1))
         ELSE [ok |-> FALSE, live |-> acc]

LIFO         == Unpopped(log, <<>>).ok
\* held elements and Size agree with pushes minus successful pops, never negative
Conservation == LET u == Unpopped(log, <<>>) IN u.ok => (s.q = u.live /\ s.n = Len(u.live) /\ s.n >= 0)
\* Peek (as ProjOK defines it) is the element the next Pop returns
PeekIsNext   == \A o \in PopOut(s) : Cons(s) => o.res.v = (IF s.q = <<>> THEN 0 ELSE Last(s.q))
=============================================================================
