SPECIFICATION Spec
CONSTANTS
  Depth = 6
  Ctor <- CtorS
  OpenKF = {}
INVARIANT Emit
CHECK_DEADLOCK FALSE
