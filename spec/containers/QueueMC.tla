------------------------------ MODULE QueueMC ------------------------------
(***************************************************************************)
(* Exhaustive model check of Queue!Out against the declarative wording of  *)
(* C05 (DESIGN.md 3.2): the oracle used for trace validation is itself     *)
(* checked against the property text, over history variables.              *)
(***************************************************************************)
EXTENDS Queue, SequencesExt, TLC

CONSTANTS Vals, MaxOps

VARIABLES s,        \* abstract queue state
          res,      \* result of the last call
          last,     \* the last call
          enqLog,   \* values enqueued since the last Clear (incl. the linked queue's initial element)
          deqLog,   \* values handed out by Dequeue since the last Clear
          nops

vars == <<s, res, last, enqLog, deqLog, nops>>

Ctor == { [n |-> "newq", a |-> <<>>] } \cup { [n |-> "newl", a |-> <<v>>] : v \in Vals }
Ops  == { [n |-> "enq", a |-> <<v>>] : v \in Vals }
        \cup { [n |-> "deq", a |-> <<>>], [n |-> "clear", a |-> <<>>] }

Init == \E c \in Ctor : \E o \in Out(S0, c) :
          /\ s = o.st /\ res = o.res /\ last = c
          /\ enqLog = (IF c.n = "newl" THEN <<c.a[1]>> ELSE <<>>)
          /\ deqLog = <<>> /\ nops = 0

\* "the queue is empty" stated over the logs only, not over the model state
LogEmpty == Len(enqLog) = Len(deqLog)

Next == /\ nops < MaxOps
        /\ \E op \in Ops : \E o \in Out(s, op) :
             /\ s' = o.st /\ res' = o.res /\ last' = op /\ nops' = nops + 1
             /\ enqLog' = CASE op.n = "enq"   -> Append(enqLog, op.a[1])
                            [] op.n = "clear" -> <<>>
                            [] OTHER          -> enqLog
             /\ deqLog' = CASE op.n = "deq" /\ ~LogEmpty -> Append(deqLog, o.res.v)
                            [] op.n = "clear"            -> <<>>
                            [] OTHER                     -> deqLog

Spec == Init /\ [][Next]_vars

\* Dequeue returns the elements in exactly the order they were enqueued, each exactly once
FIFO == IsPrefix(deqLog, enqLog)
\* what is held is what was enqueued and not yet dequeued; Size = enqueues - dequeues >= 0
Conservation == /\ Len(enqLog) >= Len(deqLog)
                /\ s.q = SubSeq(enqLog, Len(deqLog) + 1, Len(enqLog))
\* Peek (as ProjOK defines it) is what the next Dequeue returns
PeekIsNext == \A o \in DeqOut(s) : s.q # <<>> => o.res.v = Head(s.q) /\ o.res.ok
\* Search reports exactly the elements currently held
SearchExact == \A v \in Vals \cup {0} : Holds(s, v) <=> \E i \in Len(deqLog)+1..Len(enqLog) : enqLog[i] = v
\* on an empty queue Dequeue reports emptiness and changes nothing
EmptyDeq == [][ (last' .n = "deq" /\ LogEmpty) =>
                  /\ s' = s
                  /\ res'.v = 0
                  /\ (s.k = "q" => ~res'.ok) ]_vars
=============================================================================
