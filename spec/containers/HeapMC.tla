------------------------------ MODULE HeapMC ------------------------------
(***************************************************************************)
(* Exhaustive model check of Heap!OutF against the declarative wording of  *)
(* C03 over history variables (what was inserted, what was removed).       *)
(***************************************************************************)
EXTENDS Heap, TLC

CONSTANTS Vals, MaxOps, MaxSize

VARIABLES s, res, last, ins, rem, nops
vars == <<s, res, last, ins, rem, nops>>

Cmps == {0, 1, 2}
Ctor == { [n |-> "new", a |-> <<c>>] : c \in Cmps }
        \cup { [n |-> "fromslice", a |-> <<c>> \o q] : c \in Cmps, q \in { <<>>, <<20, 10>>, <<10, 11, 10>> } }
Ops  == { [n |-> "push", a |-> <<v>>] : v \in Vals } \cup { [n |-> "delete", a |-> <<v>>] : v \in Vals }
        \cup { [n |-> "convert", a |-> <<c>>] : c \in Cmps }
        \cup { [n |-> "pop", a |-> <<>>], [n |-> "clear", a |-> <<>>],
               [n |-> "merge", a |-> <<11, 20>>], [n |-> "meld", a |-> <<10>>] }

Init == \E c \in Ctor : \E o \in OutF(S0, c) :
          /\ s = o.st /\ res = o.res /\ last = c /\ nops = 0
          /\ ins = o.st.b /\ rem = <<>>

Next == /\ nops < MaxOps
        /\ \E op \in Ops : \E o \in OutF(s, op) :
             /\ Len(o.st.b) <= MaxSize
             /\ s' = o.st /\ res' = o.res /\ last' = op /\ nops' = nops + 1
             /\ ins' = CASE op.n = "push" -> Ins(ins, op.a[1])
                         [] op.n \in {"merge", "meld"} -> InsAll(ins, op.a)
                         [] OTHER -> ins
             /\ rem' = CASE op.n = "pop" /\ Len(ins) > Len(rem) -> Ins(rem, o.res.v)
                         [] op.n = "delete" /\ o.res.ok -> Ins(rem, op.a[1])
                         [] op.n = "clear" -> InsAll(rem, s.b)
                         [] OTHER -> rem
Spec == Init /\ [][Next]_vars

\* held = inserted minus removed; Size likewise
Conservation == InsAll(s.b, rem) = ins
\* Pop returns an element that no other held element precedes; the zero value when empty
PopMinimal == [][ last'.n = "pop" =>
                    IF s.b = <<>> THEN res'.v = 0 /\ s' = s
                    ELSE /\ Has(s.b, res'.v)
                         /\ \A i \in 1..Len(s.b) : ~Cmp(s.c, s.b[i], res'.v)
                         /\ Len(s'.b) = Len(s.b) - 1 ]_vars
\* Delete reports absence exactly for absent values and then changes nothing
DeleteExact == [][ last'.n = "delete" =>
                    /\ res'.ok = Has(s.b, last'.a[1])
                    /\ (~res'.ok => s' = s /\ res'.v = 1) ]_vars
\* Convert keeps the same elements
ConvertKeeps == [][ last'.n = "convert" => s'.b = s.b ]_vars
\* every state admits a drain the comparator does not contradict (DrainOK is satisfiable)
RECURSIVE SomeDrain(_)
SomeDrain(st) == IF st.b = <<>> THEN <<>>
                 ELSE LET o == CHOOSE o \in PopOut(st) : TRUE IN <<o.res.v>> \o SomeDrain(o.st)
DrainSatisfiable == DrainOK(s, SomeDrain(s))
=============================================================================
