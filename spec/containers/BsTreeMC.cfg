SPECIFICATION Spec
CONSTANTS
  Keys = {0, 1, 2}
  MaxOps = 6
  UseKF = FALSE
  OpenKF = {}
INVARIANTS GetLatest SizeIsCount TraverseOrdered
PROPERTY DeleteReports
CHECK_DEADLOCK FALSE
