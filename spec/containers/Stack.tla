------------------------------- MODULE Stack -------------------------------
(***************************************************************************)
(* C06 - LIFO stacks (stack.Stack, stack.LStack).                          *)
(* Abstract state [k, q, n]: implementation, held elements bottom first,   *)
(* and the element counter.  For every behaviour the property allows       *)
(* n = Len(q); the counter is a separate component only so that the open   *)
(* known finding KF-C06-1 (LStack.Pop, pinned by Example_linkedList) can   *)
(* be written as an exact deviation and checking continues beneath it      *)
(* (DESIGN.md 6.2, Appendix C).                                            *)
(***************************************************************************)
EXTENDS Integers, Sequences, FiniteSets

CONSTANT OpenKF

S0 == [k |-> "none", q |-> <<>>, n |-> 0]

R(ok, v, s) == [ok |-> ok, v |-> v, s |-> s, p |-> FALSE]
O(st, res)  == [st |-> st, res |-> res]
Unit        == R(TRUE, 0, <<>>)
Front(q)    == SubSeq(q, 1, Len(q) - 1)
Last(q)     == q[Len(q)]
Rev(q)      == [i \in 1..Len(q) |-> q[Len(q) + 1 - i]]
Max0(x)     == IF x < 0 THEN 0 ELSE x

Cons(s) == s.n = Len(s.q)      \* states the property can produce

PushOut(s, v) == { O([s EXCEPT !.q = Append(@, v), !.n = @ + 1], Unit) }
\* Pop and Peek on an empty stack return the zero value and change nothing
PopOut(s) == IF s.q = <<>> THEN { O(s, R(TRUE, 0, <<>>)) }
             ELSE { O([s EXCEPT !.q = Front(@), !.n = @ - 1], R(TRUE, Last(s.q), <<>>)) }
\* terminal observation: Pop while Size() > 0; the values, then Size()
DrainOut(s) == { O([s EXCEPT !.q = <<>>, !.n = 0], R(TRUE, 0, Rev(s.q))) }

Out(s, op) ==
    IF op.n = "news" THEN { O([k |-> "s", q |-> <<>>, n |-> 0], Unit) }
    ELSE IF op.n = "newl" THEN { O([k |-> "l", q |-> <<op.a[1]>>, n |-> 1], Unit) }
    ELSE IF ~Cons(s) THEN {}
    ELSE CASE op.n = "push"  -> PushOut(s, op.a[1])
           [] op.n = "pop"   -> PopOut(s)
           [] op.n = "drain" -> DrainOut(s)
           [] OTHER          -> {}

Holds(s, v) == \E i \in 1..Len(s.q) : s.q[i] = v

\* observers: Size, Peek, Search(v) for v = 0 .. Len(has)-1
ProjOK(s, p) ==
    /\ ~p.pp
    /\ p.size = s.n
    /\ p.peek = (IF s.q = <<>> THEN 0 ELSE Last(s.q))
    /\ \A i \in 1..Len(p.has) : p.has[i] = Holds(s, i - 1)

(***************************************************************************)
(* KF-C06-1: what LStack.Pop does today.  DList.Pop unlinks the last node  *)
(* but hands back a copy of the node BEFORE it; with a single node it      *)
(* unlinks nothing and hands back a zero node.  The counter is decremented *)
(* (not below zero) either way.                                            *)
(***************************************************************************)
DevPop(s) == IF Len(s.q) >= 2
               THEN [st |-> [s EXCEPT !.q = Front(@), !.n = Max0(@ - 1)], v |-> s.q[Len(s.q) - 1]]
               ELSE [st |-> [s EXCEPT !.n = Max0(@ - 1)], v |-> 0]

RECURSIVE DevDrain(_, _)
DevDrain(s, fuel) == IF s.n <= 0 \/ fuel = 0 THEN [st |-> s, vs |-> <<>>]
                     ELSE LET d == DevPop(s)  r == DevDrain(d.st, fuel - 1)
                          IN  [st |-> r.st, vs |-> <<d.v>> \o r.vs]

K(st, res) == [st |-> st, res |-> res, kf |-> "KF-C06-1", taint |-> FALSE]

KFOut(s, op) ==
    IF "KF-C06-1" \notin OpenKF \/ s.k # "l" THEN {}
    ELSE CASE op.n = "pop"   -> { K(DevPop(s).st, R(TRUE, DevPop(s).v, <<>>)) }
           [] op.n = "drain" -> LET d == DevDrain(s, 64) IN { K(d.st, R(TRUE, d.st.n, d.vs)) }
           [] op.n = "push" /\ ~Cons(s) -> { K([s EXCEPT !.q = Append(@, op.a[1]), !.n = @ + 1], Unit) }
           [] OTHER -> {}

Trig(S, e) == {}
=============================================================================
