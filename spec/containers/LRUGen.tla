------------------------------- MODULE LRUGen -------------------------------
(* Binding A for the LRU cache: see QueueGen.tla.  Keys 0..Cap, value = step number. *)
EXTENDS LRU, Json, TLC
CONSTANTS Depth, Cap
VARIABLES s, hist
Ctor == [n |-> "new", a |-> <<Cap>>]
Ops(v) == { [n |-> "add", a |-> <<k, v>>] : k \in 0..Cap } \cup { [n |-> "get", a |-> <<k>>] : k \in 0..Cap }
          \cup { [n |-> "remove", a |-> <<k>>] : k \in 0..Cap }
          \cup { [n |-> x, a |-> <<>>] : x \in {"getoldest", "removeoldest", "removeyoungest", "flush"} }
Init == \E o \in Out(S0, Ctor) : s = o.st /\ hist = << [op |-> Ctor, res |-> o.res] >>
Next == /\ Len(hist) <= Depth
        /\ \E op \in Ops(Len(hist)) : \E o \in Out(s, op) : s' = o.st /\ hist' = Append(hist, [op |-> op, res |-> o.res])
Spec == Init /\ [][Next]_<<s, hist>>
Emit == Len(hist) = Depth + 1 =>
          \A o \in Out(s, [n |-> "drain", a |-> <<>>]) :
            PrintT(<<"GEN", ToJson(Append(hist, [op |-> [n |-> "drain", a |-> <<>>], res |-> o.res]))>>)
=============================================================================
