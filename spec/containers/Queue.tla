------------------------------- MODULE Queue -------------------------------
(***************************************************************************)
(* C05 - FIFO queues (queue.Queue, queue.LQueue).                          *)
(* Abstract state: [k, q] with k the implementation ("q" slice-backed,     *)
(* "l" linked, "none" before the constructor) and q the sequence of held   *)
(* elements, oldest first.  Out(s, op) is the set of outcomes the property *)
(* statement allows (DESIGN.md 3.1); all operations are deterministic.     *)
(***************************************************************************)
EXTENDS Integers, Sequences, FiniteSets

S0 == [k |-> "none", q |-> <<>>]

R(ok, v, s) == [ok |-> ok, v |-> v, s |-> s, p |-> FALSE]
O(st, res)  == [st |-> st, res |-> res]
Unit        == R(TRUE, 0, <<>>)

EnqOut(s, v) == { O([s EXCEPT !.q = Append(@, v)], Unit) }

\* On an empty queue Dequeue reports emptiness - an error for the slice
\* queue, the zero value for the linked one - and changes nothing.
DeqOut(s) == IF s.q = <<>>
               THEN { O(s, R(s.k = "l", 0, <<>>)) }
               ELSE { O([s EXCEPT !.q = Tail(@)], R(TRUE, Head(s.q), <<>>)) }

ClearOut(s) == { O([s EXCEPT !.q = <<>>], Unit) }

\* terminal observation: dequeue while Size() > 0; reports what came out
\* and the Size() afterwards
DrainOut(s) == { O([s EXCEPT !.q = <<>>], R(TRUE, 0, s.q)) }

Out(s, op) ==
    CASE op.n = "newq"  -> { O([k |-> "q", q |-> <<>>], Unit) }
      [] op.n = "newl"  -> { O([k |-> "l", q |-> <<op.a[1]>>], Unit) }
      [] op.n = "enq"   -> EnqOut(s, op.a[1])
      [] op.n = "deq"   -> DeqOut(s)
      [] op.n = "clear" -> ClearOut(s)
      [] op.n = "drain" -> DrainOut(s)
      [] OTHER          -> {}

Holds(s, v) == \E i \in 1..Len(s.q) : s.q[i] = v

\* observers after every step: Size, Peek, Search(v) for v = 0 .. Len(has)-1
ProjOK(s, p) ==
    /\ ~p.pp
    /\ p.size = Len(s.q)
    /\ p.peek = (IF s.q = <<>> THEN 0 ELSE Head(s.q))
    /\ \A i \in 1..Len(p.has) : p.has[i] = Holds(s, i - 1)

\* no open known findings
KFOut(s, op) == {}
Trig(S, e)   == {}
=============================================================================
