------------------------------- MODULE BsTree -------------------------------
(***************************************************************************)
(* C04 - binary search tree as an ordered map (bstree.BsTree).             *)
(* Abstract state [m, c, drift]: m the map key -> value, c the comparator  *)
(* ("asc" for <, "desc" for >), drift a ghost counter that is 0 in every   *)
(* behaviour the property allows; it exists so that the open finding       *)
(* KF-C04-1 (Size decremented when an absent key is deleted, pinned by the *)
(* package example) is an exact deviation and checking continues below it. *)
(***************************************************************************)
EXTENDS Integers, Sequences, FiniteSets, SequencesExt

CONSTANT OpenKF

NoMap == [k \in {} |-> 0]
S0 == [m |-> NoMap, c |-> "none", drift |-> 0]

R(ok, v, s) == [ok |-> ok, v |-> v, s |-> s, p |-> FALSE]
O(st, res)  == [st |-> st, res |-> res]
Unit        == R(TRUE, 0, <<>>)

Put(m, k, v) == [x \in DOMAIN m \cup {k} |-> IF x = k THEN v ELSE m[x]]
Del(m, k)    == [x \in DOMAIN m \ {k} |-> m[x]]

Out(s, op) ==
    CASE op.n = "new"    -> { O([m |-> NoMap, c |-> IF op.a[1] = 0 THEN "asc" ELSE "desc", drift |-> 0], Unit) }
      [] op.n = "upsert" -> { O([s EXCEPT !.m = Put(@, op.a[1], op.a[2])], Unit) }
      \* Delete reports not-found exactly for absent keys and otherwise removes only that key
      [] op.n = "delete" -> IF op.a[1] \in DOMAIN s.m
                              THEN { O([s EXCEPT !.m = Del(@, op.a[1])], R(TRUE, 0, <<>>)) }
                              ELSE { O(s, R(FALSE, 0, <<>>)) }
      \* Get as a call of its own between the edits: answers from the current map, changes nothing
      [] op.n = "get"    -> IF op.a[1] \in DOMAIN s.m THEN { O(s, R(TRUE, s.m[op.a[1]], <<>>)) } ELSE { O(s, R(FALSE, 0, <<>>)) }
      [] OTHER           -> {}

\* keys in comparator order
KeySeq(s) == SortSeq(SetToSeq(DOMAIN s.m), LAMBDA x, y : IF s.c = "desc" THEN x > y ELSE x < y)

\* observers: Size, Traverse (flattened k1,v1,k2,v2,.. ; only when p.full), Get of the probe
\* keys p.gk (value, or -1 for not-found)
ProjOK(s, p) ==
    /\ ~p.pp
    /\ p.size = Cardinality(DOMAIN s.m) - s.drift
    /\ p.full => LET ks == KeySeq(s) IN
                 /\ Len(p.trav) = 2 * Len(ks)
                 /\ \A i \in 1..Len(ks) : p.trav[2 * i - 1] = ks[i] /\ p.trav[2 * i] = s.m[ks[i]]
    /\ \A i \in 1..Len(p.gk) : p.gv[i] = (IF p.gk[i] \in DOMAIN s.m THEN s.m[p.gk[i]] ELSE -1)

\* KF-C04-1: Delete of an absent key reports not-found AND decrements the size counter
KFOut(s, op) ==
    IF "KF-C04-1" \in OpenKF /\ op.n = "delete" /\ op.a[1] \notin DOMAIN s.m
      THEN { [st |-> [s EXCEPT !.drift = @ + 1], res |-> R(FALSE, 0, <<>>), kf |-> "KF-C04-1", taint |-> FALSE] }
      ELSE {}
Trig(S, e) == {}
=============================================================================
