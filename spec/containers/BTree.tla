-------------------------------- MODULE BTree --------------------------------
(***************************************************************************)
(* C10 - B-tree as an ordered map that stays balanced (btree.BTree).       *)
(* Abstract state [m, ever]: the map and the set of distinct keys ever     *)
(* inserted.  Height is an OBSERVED value constrained by                   *)
(* 2^Height <= max(1, |ever|); the algorithmic side of that bound is       *)
(* model-checked separately in BTreeNodes.tla.                             *)
(***************************************************************************)
EXTENDS Integers, Sequences, FiniteSets, SequencesExt

NoMap == [k \in {} |-> 0]
S0 == [m |-> NoMap, ever |-> {}]

R(ok, v, s) == [ok |-> ok, v |-> v, s |-> s, p |-> FALSE]
O(st, res)  == [st |-> st, res |-> res]
Unit        == R(TRUE, 0, <<>>)

Put(m, k, v) == [x \in DOMAIN m \cup {k} |-> IF x = k THEN v ELSE m[x]]
Del(m, k)    == [x \in DOMAIN m \ {k} |-> m[x]]

Out(s, op) ==
    CASE op.n = "new"    -> { O(S0, Unit) }
      [] op.n = "put"    -> { O([m |-> Put(s.m, op.a[1], op.a[2]), ever |-> s.ever \cup {op.a[1]}], Unit) }
      \* removing an absent or already removed key changes nothing
      [] op.n = "remove" -> { O([s EXCEPT !.m = Del(@, op.a[1])], Unit) }
      \* Get as a call of its own between the edits: answers from the current map, changes nothing
      [] op.n = "get"    -> IF op.a[1] \in DOMAIN s.m THEN { O(s, R(TRUE, s.m[op.a[1]], <<>>)) } ELSE { O(s, R(FALSE, 0, <<>>)) }
      [] OTHER           -> {}

KeySeq(s) == SortSeq(SetToSeq(DOMAIN s.m), LAMBDA x, y : x < y)
RECURSIVE Pow2(_)
Pow2(n) == IF n = 0 THEN 1 ELSE 2 * Pow2(n - 1)
Max1(n) == IF n < 1 THEN 1 ELSE n

\* observers: Size, IsEmpty, Height, Traverse (when p.full), Get of the probe keys
ProjOK(s, p) ==
    /\ ~p.pp
    /\ p.size = Cardinality(DOMAIN s.m)
    /\ p.emp = (DOMAIN s.m = {})
    /\ p.h >= 0 /\ p.h < 20 /\ Pow2(p.h) <= Max1(Cardinality(s.ever))
    /\ p.full => LET ks == KeySeq(s) IN
                 /\ Len(p.trav) = 2 * Len(ks)
                 /\ \A i \in 1..Len(ks) : p.trav[2 * i - 1] = ks[i] /\ p.trav[2 * i] = s.m[ks[i]]
    /\ \A i \in 1..Len(p.gk) : p.gv[i] = (IF p.gk[i] \in DOMAIN s.m THEN s.m[p.gk[i]] ELSE -1)

KFOut(s, op) == {}
Trig(S, e)   == {}
=============================================================================
