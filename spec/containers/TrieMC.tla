------------------------------- MODULE TrieMC -------------------------------
(***************************************************************************)
(* Exhaustive model check of Trie!Out and of the query definitions used by *)
(* Trie!ProjOK against the wording of C09, over the history of Puts.       *)
(***************************************************************************)
EXTENDS Trie, TLC
CONSTANTS Alpha, MaxLen, MaxOps
VARIABLES s, log, nops
vars == <<s, log, nops>>

RECURSIVE Strs(_)
Strs(n) == IF n = 0 THEN { <<>> } ELSE Strs(n - 1) \cup { Append(x, c) : x \in Strs(n - 1), c \in Alpha }
KeysU   == Strs(MaxLen) \ { <<>> }
Queries == Strs(MaxLen + 1)

Init == s = S0 /\ log = <<>> /\ nops = 0
Next == /\ nops < MaxOps
        /\ \E k \in KeysU : \E o \in Out(s, [n |-> "put", a |-> <<nops + 1>> \o k]) :
             s' = o.st /\ log' = Append(log, <<k, nops + 1>>) /\ nops' = nops + 1
Spec == Init /\ [][Next]_vars

PutKeys == { log[i][1] : i \in 1..Len(log) }
LastVal(k) == LET I == { i \in 1..Len(log) : log[i][1] = k } IN log[CHOOSE i \in I : \A j \in I : j <= i][2]

\* Get/Contains report exactly the keys that were put, with their latest values; a proper prefix
\* or an extension of a stored key is not itself reported
ExactKeys == /\ DOMAIN s.m = PutKeys
             /\ \A k \in PutKeys : s.m[k] = LastVal(k)
\* Keys: every stored key exactly once, in byte-lexicographic order
KeysSorted == LET ks == Sorted(DOMAIN s.m) IN
              /\ Len(ks) = Cardinality(PutKeys) /\ { ks[i] : i \in 1..Len(ks) } = PutKeys
              /\ \A i \in 1..Len(ks) - 1 : LexLess(ks[i], ks[i + 1]) /\ ~LexLess(ks[i + 1], ks[i])
\* LongestPrefix(q): a stored prefix of q, and no stored prefix of q is longer; empty if none
LongestOK == \A q \in Queries \ { <<>> } :
               LET r == LongestPrefix(s, q) IN
               IF \E k \in PutKeys : Prefix(k, q)
                 THEN r \in PutKeys /\ Prefix(r, q) /\ \A k \in PutKeys : Prefix(k, q) => Len(k) <= Len(r)
                 ELSE r = <<>>
\* LexLess is a strict total order on the keys (so "sorted" is well defined)
LexTotal == \A a, b \in KeysU : (a # b) => (LexLess(a, b) /\ ~LexLess(b, a)) \/ (LexLess(b, a) /\ ~LexLess(a, b))
=============================================================================
