SPECIFICATION Spec
CONSTANTS
  Depth = 4
  Cap = 1
INVARIANT Emit
CHECK_DEADLOCK FALSE
