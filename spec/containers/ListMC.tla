------------------------------- MODULE ListMC -------------------------------
(***************************************************************************)
(* Exhaustive model check of List!Out against the wording of C19: the list *)
(* is never empty, and no edit loses, duplicates or reorders the OTHER     *)
(* elements.                                                               *)
(***************************************************************************)
EXTENDS List, TLC
CONSTANTS MaxOps
VARIABLES s, res, last, nops
vars == <<s, res, last, nops>>

Used  == { s.q[i] : i \in 1..Len(s.q) } \cup {99}
Fresh == 10 + nops + 1
Ops == { [n |-> x, a |-> <<Fresh>>] : x \in {"unshift", "append"} }
       \cup { [n |-> x, a |-> <<>>] : x \in {"shift", "pop"} }
       \cup { [n |-> x, a |-> <<u, Fresh>>] : x \in {"insafter", "insbefore", "replace"}, u \in Used }
       \cup { [n |-> "delete", a |-> <<u>>] : u \in Used }

Init == \E c \in {"news", "newd"} : \E o \in Out(S0, [n |-> c, a |-> <<1>>]) :
          s = o.st /\ res = o.res /\ last = [n |-> c, a |-> <<1>>] /\ nops = 0
Next == /\ nops < MaxOps
        /\ \E op \in Ops : (op.n = "insbefore" => s.k = "d") /\ \E o \in Out(s, op) :
             s' = o.st /\ res' = o.res /\ last' = op /\ nops' = nops + 1
Spec == Init /\ [][Next]_vars

NonEmpty == Len(s.q) >= 1
Distinct == \A i, j \in 1..Len(s.q) : i # j => s.q[i] # s.q[j]
Strip(q, X) == SelectSeq(q, LAMBDA v : v \notin X)
\* the elements an operation is allowed to add, remove or change
Touched(op, q) == CASE op.n \in {"unshift", "append"} -> {op.a[1]}
                    [] op.n = "shift" -> {q[1], 0}
                    [] op.n = "pop" -> {q[Len(q)]}
                    [] op.n \in {"insafter", "insbefore"} -> {op.a[2]}
                    [] op.n = "delete" -> {op.a[1]}
                    [] op.n = "replace" -> {op.a[1], op.a[2]}
OthersKept == [][ Strip(s'.q, Touched(last', s.q)) = Strip(s.q, Touched(last', s.q)) ]_vars
\* each edit has exactly its sequence meaning
Placement == [][ /\ (last'.n = "unshift" => s'.q[1] = last'.a[1] /\ Len(s'.q) = Len(s.q) + 1)
                 /\ (last'.n = "append" => s'.q[Len(s'.q)] = last'.a[1] /\ Len(s'.q) = Len(s.q) + 1)
                 /\ (last'.n \in {"shift", "pop"} /\ Len(s.q) > 1 => Len(s'.q) = Len(s.q) - 1)
                 /\ (last'.n = "insafter" /\ res'.ok => \E i \in 1..Len(s.q) : s'.q[i] = last'.a[1] /\ s'.q[i + 1] = last'.a[2])
                 /\ (last'.n = "insbefore" /\ res'.ok => \E i \in 1..Len(s.q) : s'.q[i] = last'.a[2] /\ s'.q[i + 1] = last'.a[1])
                 /\ (last'.n \in {"insafter", "insbefore", "replace"} => res'.ok = In(s.q, last'.a[1]))
                 /\ (last'.n = "delete" => (res'.ok <=> In(s.q, last'.a[1]) /\ Len(s.q) > 1) /\ (res'.ok => ~In(s'.q, last'.a[1])))
                 /\ (~res'.ok => s' = s) ]_vars
=============================================================================
