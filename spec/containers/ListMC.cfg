SPECIFICATION Spec
CONSTANTS
  MaxOps = 5
  OpenKF = {}
INVARIANTS NonEmpty Distinct
PROPERTIES OthersKept Placement
CHECK_DEADLOCK FALSE
