SPECIFICATION Spec
CONSTANTS
  Vals = {1, 2, 3}
  MaxOps = 5
  UseKF = TRUE
  OpenKF = {"KF-C06-1"}
INVARIANTS LIFO
CHECK_DEADLOCK FALSE
