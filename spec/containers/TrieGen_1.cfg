SPECIFICATION Spec
CONSTANTS
  Depth = 4
INVARIANT Emit
CHECK_DEADLOCK FALSE
