------------------------------ MODULE ExpCacheMC ------------------------------
(***************************************************************************)
(* Exhaustive model check of ExpCache!Out against the wording of C08 over  *)
(* ghost history: for every key the last successful store (value, instant, *)
(* deadline) and whether it was explicitly removed since.                  *)
(***************************************************************************)
EXTENDS ExpCache, TLC
CONSTANTS MaxOps, MaxNow
Keys == {0, 1}
Durs == {0, -1, 2}
Ticks == {1, 2, 5}
Defs == {-1, 0, 4}
Intvs == {0, 6}
VARIABLES s, res, last, ghost, nops
vars == <<s, res, last, ghost, nops>>

NoStore == [v |-> 0, at |-> 0, dl |-> 0, held |-> FALSE]

Ops(v) == { [n |-> "set", a |-> <<k, v, d>>] : k \in Keys, d \in Durs }
          \cup { [n |-> "update", a |-> <<k, v, d>>] : k \in Keys, d \in Durs }
          \cup { [n |-> "set", a |-> <<k, 0, 0>>] : k \in Keys }            \* rejected value
          \cup { [n |-> "delete", a |-> <<k>>] : k \in Keys }
          \cup { [n |-> x, a |-> <<>>] : x \in {"flush", "delexp"} }
          \cup { [n |-> "m2c", a |-> <<d, 0, v, 1, v>>] : d \in Durs }
          \cup { [n |-> "tick", a |-> <<t>>] : t \in Ticks }

Init == \E d \in Defs, i \in Intvs : \E o \in Out(S0, [n |-> "new", a |-> <<d, i>>]) :
          /\ s = o.st /\ res = o.res /\ last = [n |-> "new", a |-> <<d, i>>]
          /\ ghost = [k \in Keys |-> NoStore] /\ nops = 0

\* the ghost follows the WORDING, not Out: a store is a Set/Update/MapToCache entry that took effect
Stored(st, st1, k) == k \in Dom(st1) /\ (k \notin Dom(st) \/ st.items[k] # st1.items[k])

Next == /\ nops < MaxOps
        /\ \E op \in Ops((nops % 2) + 1) : \E o \in Out(s, op) :
             /\ (op.n = "tick" => s.now + op.a[1] <= MaxNow)
             /\ s' = o.st /\ res' = o.res /\ last' = op /\ nops' = nops + 1
             /\ ghost' = [k \in Keys |->
                   IF op.n \in {"set", "update", "m2c"} /\ Stored(s, o.st, k)
                     THEN [v |-> o.st.items[k].v, at |-> s.now, dl |-> o.st.items[k].dl, held |-> TRUE]
                   ELSE IF op.n = "flush" \/ (op.n = "delete" /\ op.a[1] = k)
                     THEN [ghost[k] EXCEPT !.held = FALSE]
                   ELSE ghost[k]]
Spec == Init /\ [][Next]_vars

\* "an entry stored with a positive duration is live at every instant before its deadline":
\* it is still there, with its latest value, and entries without expiry are never removed by cleanup
LiveKept == \A k \in Keys : ghost[k].held /\ (ghost[k].dl = 0 \/ s.now < ghost[k].dl)
                              => Has(s, k) /\ s.items[k].v = ghost[k].v /\ s.items[k].dl = ghost[k].dl
\* the deadline of a store is the instant of the store plus the effective duration; none when that is <= 0
Deadlines == \A k \in Keys : ghost[k].held => ghost[k].dl = 0 \/ ghost[k].dl > ghost[k].at
\* nothing is in the cache that was not stored, or that was explicitly removed
NoGhosts == \A k \in Dom(s) : ghost[k].held /\ s.items[k].v = ghost[k].v
\* "with background cleanup enabled expired entries disappear within about one interval"
JanitorBound == s.intv > 0 => \A k \in Dom(s) : s.items[k].dl > 0 => s.now <= s.items[k].dl + s.intv
\* without background cleanup only DeleteExpired, Delete and Flush remove anything
NoSpontaneousLoss == [][ (s.intv = 0 /\ last'.n \notin {"delexp", "delete", "flush"}) => Dom(s) \subseteq Dom(s') ]_vars
\* Set stores only if the key has no live entry, otherwise it errors and changes nothing; a rejected
\* value or duplicate key is reported as an error; Update always stores
SetRule == [][ /\ (last'.n = "set" /\ SureLive(s, last'.a[1]) => s' = s /\ ~res'.ok)
               /\ (last'.n = "set" /\ last'.a[2] # 0 /\ ~MayLive(s, last'.a[1]) =>
                      res'.ok /\ s'.items[last'.a[1]].v = last'.a[2])
               /\ (last'.n \in {"set", "update"} /\ last'.a[2] = 0 => s' = s /\ ~res'.ok)
               /\ (last'.n = "update" /\ last'.a[2] # 0 => res'.ok /\ s'.items[last'.a[1]].v = last'.a[2])
               /\ (last'.n = "m2c" => (res'.ok <=> \A k \in {0, 1} : ~MayLive(s, k) \/ (~SureLive(s, k) /\ Stored(s, s', k)))) ]_vars
\* DeleteExpired removes exactly the expired entries
DelExpRule == [][ last'.n = "delexp" => /\ \A k \in Dom(s) : SureExp(s, k) => ~Has(s', k)
                                        /\ \A k \in Dom(s) : ~MayExp(s, k) => Has(s', k) /\ s'.items[k] = s.items[k]
                                        /\ Dom(s') \subseteq Dom(s) ]_vars
=============================================================================
