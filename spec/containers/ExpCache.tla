------------------------------- MODULE ExpCache -------------------------------
(***************************************************************************)
(* C08 - expiring key/value cache (cache.Cache) over a VIRTUAL clock.      *)
(*                                                                         *)
(* Abstract state: items : key -> [v, dl]  (dl = 0: never expires,         *)
(* otherwise the absolute deadline), now, the default duration def, the    *)
(* cleanup interval intv (0 = no background cleanup).  Durations d in      *)
(* calls: 0 = use the default, < 0 = no expiry, > 0 = that many time units.*)
(* Value 0 stands for the rejected value (the empty string).               *)
(*                                                                         *)
(* Permissive exactly where the statement is (DESIGN 6.3): an observation  *)
(* AT the deadline may go either way; Count/List may or may not include    *)
(* expired entries that have not been purged; Delete of a key that is not  *)
(* live may or may not report an error; DeleteExpired's result is free;    *)
(* the background cleanup may remove an expired entry at any moment and    *)
(* MUST have removed it once more than one interval has passed since its   *)
(* deadline.                                                               *)
(***************************************************************************)
EXTENDS Integers, Sequences, FiniteSets

NoMap == [k \in {} |-> 0]
S0 == [items |-> NoMap, now |-> 0, def |-> 0, intv |-> 0]

R(ok)       == [ok |-> ok, v |-> 0, s |-> <<>>, p |-> FALSE]
O(st, res)  == [st |-> st, res |-> res]

Put(m, k, e)    == [x \in DOMAIN m \cup {k} |-> IF x = k THEN e ELSE m[x]]
Restrict(m, K)  == [x \in K |-> m[x]]
Dom(s)          == DOMAIN s.items

Eff(s, d) == IF d = 0 THEN s.def ELSE d
Dl(s, d)  == IF Eff(s, d) > 0 THEN s.now + Eff(s, d) ELSE 0

Has(s, k)      == k \in Dom(s)
SureLive(s, k) == Has(s, k) /\ (s.items[k].dl = 0 \/ s.now < s.items[k].dl)
MayLive(s, k)  == Has(s, k) /\ (s.items[k].dl = 0 \/ s.now <= s.items[k].dl)
SureExp(s, k)  == Has(s, k) /\ s.items[k].dl > 0 /\ s.now > s.items[k].dl
MayExp(s, k)   == Has(s, k) /\ s.items[k].dl > 0 /\ s.now >= s.items[k].dl

Store(s, k, v, d) == [s EXCEPT !.items = Put(@, k, [v |-> v, dl |-> Dl(s, d)])]
Remove(s, K)      == [s EXCEPT !.items = Restrict(@, Dom(s) \ K)]

\* Set stores only if the key has no live entry, otherwise it errors and changes nothing;
\* a rejected value is reported as an error
SetOut(s, k, v, d) ==
    IF v = 0 THEN { O(s, R(FALSE)) }
    ELSE (IF MayLive(s, k) THEN { O(s, R(FALSE)) } ELSE {})
         \cup (IF ~SureLive(s, k) THEN { O(Store(s, k, v, d), R(TRUE)) } ELSE {})

\* Update always stores
UpdateOut(s, k, v, d) ==
    IF v = 0 THEN { O(s, R(FALSE)) } ELSE { O(Store(s, k, v, d), R(TRUE)) }

DeleteOut(s, k) ==
    IF SureLive(s, k) THEN { O(Remove(s, {k}), R(TRUE)) }
    ELSE { O(Remove(s, {k}), R(TRUE)), O(Remove(s, {k}), R(FALSE)) }
\* The statement does not say what Delete answers for a key that is not there, so either answer is accepted
\* above.  Linearizability (C02) however is relative to what the code answers when run one call at a time: the
\* concurrent driver asks the code under test once, sequentially, what Delete of a missing key returns and
\* passes the answer along as a second argument (0: no error, 1: an error); every Delete of a key that is not
\* in the map then has to give that same answer.
DeleteOutCal(s, a) ==
    IF Len(a) >= 2 /\ ~Has(s, a[1]) THEN { O(s, R(a[2] = 0)) } ELSE DeleteOut(s, a[1])

\* DeleteExpired removes exactly the expired entries, never one without expiry
DelExpOut(s) ==
    LET sure == { k \in Dom(s) : SureExp(s, k) }
        edge == { k \in Dom(s) : MayExp(s, k) } \ sure
    IN  { O(Remove(s, sure \cup e), R(b)) : e \in SUBSET edge, b \in BOOLEAN }

\* MapToCache = Set of every entry (keys are distinct, so the order is immaterial);
\* an error is reported iff some Set failed.  a = <<d, k1, v1, k2, v2, ...>>
RECURSIVE Fold(_, _, _, _)
Fold(s, fail, a, i) ==
    IF i > Len(a) THEN { O(s, R(~fail)) }
    ELSE UNION { Fold(o.st, fail \/ ~o.res.ok, a, i + 2) : o \in SetOut(s, a[i], a[i + 1], a[1]) }

\* the clock moves; with background cleanup an expired entry may vanish at any moment after
\* its deadline and must be gone once more than one interval has passed since
TickOut(s, delta) ==
    LET s1   == [s EXCEPT !.now = @ + delta]
        may  == IF s.intv > 0 THEN { k \in Dom(s1) : MayExp(s1, k) } ELSE {}
        must == { k \in may : s1.now > s1.items[k].dl + s.intv }
    IN  { O(Remove(s1, must \cup e), R(TRUE)) : e \in SUBSET (may \ must) }

Out(s, op) ==
    CASE op.n = "new"    -> { O([items |-> NoMap, now |-> 0, def |-> op.a[1], intv |-> op.a[2]], R(TRUE)) }
      [] op.n = "set"    -> SetOut(s, op.a[1], op.a[2], op.a[3])
      [] op.n = "update" -> UpdateOut(s, op.a[1], op.a[2], op.a[3])
      [] op.n = "delete" -> DeleteOutCal(s, op.a)
      [] op.n = "flush"  -> { O([s EXCEPT !.items = NoMap], R(TRUE)) }
      [] op.n = "delexp" -> DelExpOut(s)
      [] op.n = "m2c"    -> Fold(s, FALSE, op.a, 2)
      [] op.n = "tick"   -> TickOut(s, op.a[1])
      [] OTHER -> {}

(***************************************************************************)
(* Observers recorded after every call: Count, List (k1,v1,k2,v2,.. sorted *)
(* by key), Get and IsExpired of every key of the alphabet 0..NK-1.        *)
(***************************************************************************)
ProjOK(s, p) ==
    LET nk     == Len(p.ex)
        listed == { p.list[2 * i - 1] : i \in 1..(Len(p.list) \div 2) }
        sure   == { k \in Dom(s) : SureLive(s, k) }
    IN  /\ ~p.pp
        /\ \A k \in 0..(nk - 1) :
             /\ IF p.get[2 * k + 1] = 1
                  THEN MayLive(s, k) /\ p.get[2 * k + 2] = s.items[k].v      \* the latest stored value
                  ELSE ~SureLive(s, k)
             /\ IF p.ex[k + 1] = 1 THEN MayExp(s, k) ELSE ~SureExp(s, k)
        /\ Cardinality(listed) = Len(p.list) \div 2
        /\ sure \subseteq listed /\ listed \subseteq Dom(s)
        /\ \A i \in 1..(Len(p.list) \div 2) : s.items[p.list[2 * i - 1]].v = p.list[2 * i]
        /\ Cardinality(sure) <= p.count /\ p.count <= Cardinality(Dom(s))

KFOut(s, op) == {}
Trig(S, e)   == {}
=============================================================================
