------------------------------ MODULE BsTreeMC ------------------------------
(***************************************************************************)
(* Exhaustive model check of BsTree!Out against the wording of C04 over a  *)
(* history of the calls made.  With UseKF the deviation must violate       *)
(* SizeIsCount.                                                            *)
(***************************************************************************)
EXTENDS BsTree, TLC
CONSTANTS Keys, MaxOps, UseKF
VARIABLES s, res, last, log, nops
vars == <<s, res, last, log, nops>>

Ops == { [n |-> "upsert", a |-> <<k, 0>>] : k \in Keys } \cup { [n |-> "delete", a |-> <<k>>] : k \in Keys }
AllOut(st, op) == Out(st, op) \cup (IF UseKF THEN { O(o.st, o.res) : o \in KFOut(st, op) } ELSE {})

Init == \E c \in {0, 1} : \E o \in Out(S0, [n |-> "new", a |-> <<c>>]) :
          s = o.st /\ res = o.res /\ last = [n |-> "new", a |-> <<c>>] /\ log = <<>> /\ nops = 0
\* the value upserted is the step number, so "latest value" is observable
Next == /\ nops < MaxOps
        /\ \E op0 \in Ops :
             LET op == IF op0.n = "upsert" THEN [op0 EXCEPT !.a[2] = nops + 1] ELSE op0 IN
             \E o \in AllOut(s, op) :
               s' = o.st /\ res' = o.res /\ last' = op /\ log' = Append(log, op) /\ nops' = nops + 1
Spec == Init /\ [][Next]_vars

\* from the history alone: the last call that named key k
LastOn(k) == LET I == { i \in 1..Len(log) : log[i].a[1] = k } IN
             IF I = {} THEN [n |-> "none"] ELSE log[CHOOSE i \in I : \A j \in I : j <= i]
Present(k) == LastOn(k).n = "upsert"

\* Get returns the most recently upserted value for present keys, not-found for every other key
GetLatest   == \A k \in Keys : IF Present(k) THEN k \in DOMAIN s.m /\ s.m[k] = LastOn(k).a[2]
                                             ELSE k \notin DOMAIN s.m
\* Size equals the number of present keys (as ProjOK reads it)
SizeIsCount == Cardinality(DOMAIN s.m) - s.drift = Cardinality({ k \in Keys : Present(k) })
\* Traverse visits each present key exactly once, in comparator order
TraverseOrdered == LET ks == KeySeq(s) IN
                   /\ { ks[i] : i \in 1..Len(ks) } = { k \in Keys : Present(k) }
                   /\ Len(ks) = Cardinality(DOMAIN s.m)
                   /\ \A i \in 1..Len(ks) - 1 : IF s.c = "desc" THEN ks[i] > ks[i + 1] ELSE ks[i] < ks[i + 1]
\* Delete reports not-found exactly for absent keys
DeleteReports == [][ last'.n = "delete" => (res'.ok <=> last'.a[1] \in DOMAIN s.m) ]_vars
=============================================================================
