------------------------------ MODULE BTreeMC ------------------------------
(***************************************************************************)
(* Exhaustive model check of BTree!Out against the wording of C10 over a   *)
(* history of the calls made.                                              *)
(***************************************************************************)
EXTENDS BTree, TLC
CONSTANTS Keys, MaxOps
VARIABLES s, res, last, log, nops
vars == <<s, res, last, log, nops>>

Ops == { [n |-> "put", a |-> <<k, 0>>] : k \in Keys } \cup { [n |-> "remove", a |-> <<k>>] : k \in Keys }

Init == \E o \in Out(S0, [n |-> "new", a |-> <<>>]) :
          s = o.st /\ res = o.res /\ last = [n |-> "new", a |-> <<>>] /\ log = <<>> /\ nops = 0
Next == /\ nops < MaxOps
        /\ \E op0 \in Ops :
             LET op == IF op0.n = "put" THEN [op0 EXCEPT !.a[2] = nops + 1] ELSE op0 IN
             \E o \in Out(s, op) :
               s' = o.st /\ res' = o.res /\ last' = op /\ log' = Append(log, op) /\ nops' = nops + 1
Spec == Init /\ [][Next]_vars

LastOn(k) == LET I == { i \in 1..Len(log) : log[i].a[1] = k } IN
             IF I = {} THEN [n |-> "none"] ELSE log[CHOOSE i \in I : \A j \in I : j <= i]
Present(k) == LastOn(k).n = "put"

\* Get returns the last value put for each key put and not since removed, absence otherwise
GetLatest == \A k \in Keys : IF Present(k) THEN k \in DOMAIN s.m /\ s.m[k] = LastOn(k).a[2]
                                           ELSE k \notin DOMAIN s.m
\* Size counts those keys: re-putting a present key or removing an absent one does not change it
SizeSteps == [][ Cardinality(DOMAIN s'.m) - Cardinality(DOMAIN s.m) =
                   (IF last'.n = "put" /\ ~Present(last'.a[1]) THEN 1
                    ELSE IF last'.n = "remove" /\ Present(last'.a[1]) THEN -1 ELSE 0) ]_vars
\* ever = the distinct keys ever inserted
EverIsHistory == s.ever = { log[i].a[1] : i \in { i \in 1..Len(log) : log[i].n = "put" } }
\* Traverse: ascending, each present key once
TraverseOrdered == LET ks == KeySeq(s) IN
                   /\ { ks[i] : i \in 1..Len(ks) } = { k \in Keys : Present(k) }
                   /\ \A i \in 1..Len(ks) - 1 : ks[i] < ks[i + 1]
=============================================================================
