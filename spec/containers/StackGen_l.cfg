SPECIFICATION Spec
CONSTANTS
  Depth = 6
  Ctor <- CtorL
  OpenKF = {}
INVARIANT Emit
CHECK_DEADLOCK FALSE
