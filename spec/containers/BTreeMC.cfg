SPECIFICATION Spec
CONSTANTS
  Keys = {0, 1, 2}
  MaxOps = 6
INVARIANTS GetLatest EverIsHistory TraverseOrdered
PROPERTY SizeSteps
CHECK_DEADLOCK FALSE
