------------------------------ MODULE StackGen ------------------------------
(* Binding A for the stacks: see QueueGen.tla. *)
EXTENDS Stack, Json, TLC
CONSTANTS Depth, Ctor
VARIABLES s, hist
CtorS == [n |-> "news", a |-> <<>>]
CtorL == [n |-> "newl", a |-> <<1>>]
Ops == { [n |-> "push", a |-> <<v>>] : v \in {0, 1, 2} } \cup { [n |-> "pop", a |-> <<>>] }
Init == \E o \in Out(S0, Ctor) : s = o.st /\ hist = << [op |-> Ctor, res |-> o.res] >>
Next == /\ Len(hist) <= Depth
        /\ \E op \in Ops : \E o \in Out(s, op) : s' = o.st /\ hist' = Append(hist, [op |-> op, res |-> o.res])
Spec == Init /\ [][Next]_<<s, hist>>
Emit == Len(hist) = Depth + 1 =>
          \A o \in Out(s, [n |-> "drain", a |-> <<>>]) :
            PrintT(<<"GEN", ToJson(Append(hist, [op |-> [n |-> "drain", a |-> <<>>], res |-> o.res]))>>)
=============================================================================
