SPECIFICATION Spec
CONSTANTS
  Depth = 5
  MaxKey = 1
INVARIANT Emit
CHECK_DEADLOCK FALSE
