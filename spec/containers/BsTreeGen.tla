------------------------------ MODULE BsTreeGen ------------------------------
(* Binding A for the binary search tree: see QueueGen.tla.  Both comparators; Upsert / Delete / Get on the
   keys 0..MaxKey; Delete's result (found or not) and every Get must be as prescribed. *)
EXTENDS BsTree, Json, TLC
CONSTANTS Depth, MaxKey
VARIABLES s, hist
Ops(v) == { [n |-> "upsert", a |-> <<k, v>>] : k \in 0..MaxKey } \cup { [n |-> "delete", a |-> <<k>>] : k \in 0..MaxKey }
          \cup { [n |-> "get", a |-> <<k>>] : k \in 0..MaxKey }
Init == \E c \in {0, 1} : LET ctor == [n |-> "new", a |-> <<c>>] IN
          \E o \in Out(S0, ctor) : s = o.st /\ hist = << [op |-> ctor, res |-> o.res] >>
Next == /\ Len(hist) <= Depth
        /\ \E op \in Ops(Len(hist)) : \E o \in Out(s, op) : s' = o.st /\ hist' = Append(hist, [op |-> op, res |-> o.res])
Spec == Init /\ [][Next]_<<s, hist>>
Emit == (Len(hist) = Depth + 1 /\ hist[Len(hist)].op.n # "upsert") => PrintT(<<"GEN", ToJson(hist)>>)
=============================================================================
