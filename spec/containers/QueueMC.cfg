SPECIFICATION Spec
CONSTANTS
  Vals = {1, 2, 3}
  MaxOps = 7
INVARIANTS FIFO Conservation PeekIsNext SearchExact
PROPERTY EmptyDeq
CHECK_DEADLOCK FALSE
