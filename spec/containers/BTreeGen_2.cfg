SPECIFICATION Spec
CONSTANTS
  Depth = 4
  MaxKey = 2
INVARIANT Emit
CHECK_DEADLOCK FALSE
