------------------------------ MODULE QueueGen ------------------------------
(***************************************************************************)
(* Binding A (DESIGN.md 4.2): TLC enumerates every behaviour of Queue!Out  *)
(* to depth Depth and prints it - the calls AND the results the            *)
(* specification prescribes - as one JSON line; `drive -vectors` steps the *)
(* real queues through each line and compares.  An independent path from   *)
(* the same Out to the same code: it would expose a recorder that skips    *)
(* calls, and it exercises every action of the specification.              *)
(***************************************************************************)
EXTENDS Queue, Json, TLC
CONSTANTS Depth, Ctor
VARIABLES s, hist
CtorQ == [n |-> "newq", a |-> <<>>]
CtorL == [n |-> "newl", a |-> <<1>>]
Ops == { [n |-> "enq", a |-> <<v>>] : v \in {0, 1, 2} } \cup { [n |-> x, a |-> <<>>] : x \in {"deq", "clear"} }
Init == \E o \in Out(S0, Ctor) : s = o.st /\ hist = << [op |-> Ctor, res |-> o.res] >>
Next == /\ Len(hist) <= Depth
        /\ \E op \in Ops : \E o \in Out(s, op) : s' = o.st /\ hist' = Append(hist, [op |-> op, res |-> o.res])
Spec == Init /\ [][Next]_<<s, hist>>
\* at full depth: the terminal drain the specification prescribes, then print
Emit == Len(hist) = Depth + 1 =>
          \A o \in Out(s, [n |-> "drain", a |-> <<>>]) :
            PrintT(<<"GEN", ToJson(Append(hist, [op |-> [n |-> "drain", a |-> <<>>], res |-> o.res]))>>)
=============================================================================
