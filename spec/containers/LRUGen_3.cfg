SPECIFICATION Spec
CONSTANTS
  Depth = 3
  Cap = 3
INVARIANT Emit
CHECK_DEADLOCK FALSE
