SPECIFICATION Spec
CONSTANTS
  Depth = 4
  Cap = 2
INVARIANT Emit
CHECK_DEADLOCK FALSE
