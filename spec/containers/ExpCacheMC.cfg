SPECIFICATION Spec
CONSTANTS
  MaxOps = 5
  MaxNow = 14
INVARIANTS LiveKept Deadlines NoGhosts JanitorBound
PROPERTIES NoSpontaneousLoss SetRule DelExpRule
CHECK_DEADLOCK FALSE
