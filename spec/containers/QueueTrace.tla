---------------------------- MODULE QueueTrace ----------------------------
EXTENDS Queue, Json, IOUtils
VARIABLES S, node, err, kf, taint
T == ndJsonDeserialize(IOEnv.TRACE)
TT == INSTANCE TraceTree
Spec == TT!Spec
NoMismatch == TT!NoMismatch
=============================================================================
