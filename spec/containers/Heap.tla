-------------------------------- MODULE Heap --------------------------------
(***************************************************************************)
(* C03 - binary heap (heap.Heap, heap.FromSlice, heap.Sort).               *)
(* Abstract state [b, c]: b the multiset of held elements, kept as a       *)
(* numerically ascending sequence (a canonical form, unrelated to the      *)
(* comparator); c the current comparator: "lt" (min-heap), "gt" (max-heap) *)
(* or "key" (strict order on v \div 10 only, so 10 and 11 tie).            *)
(* Pop/Peek are NONDETERMINISTIC among the elements no other element       *)
(* precedes: ties and by-key comparators make Out a set (DESIGN.md 3.1).   *)
(* The array layout is not part of the state: no listed property pins it.  *)
(***************************************************************************)
EXTENDS Integers, Sequences, FiniteSets, SequencesExt

CONSTANT OpenKF

S0 == [b |-> <<>>, c |-> "none"]

R(ok, v, s) == [ok |-> ok, v |-> v, s |-> s, p |-> FALSE]
O(st, res)  == [st |-> st, res |-> res]
Unit        == R(TRUE, 0, <<>>)

CmpName(i) == CASE i = 0 -> "lt" [] i = 1 -> "gt" [] i = 2 -> "key"
Cmp(c, x, y) == CASE c = "lt"  -> x < y
                  [] c = "gt"  -> x > y
                  [] c = "key" -> (x \div 10) < (y \div 10)

\* ---- multisets as ascending sequences
Ins(b, v)   == LET k == Cardinality({ i \in 1..Len(b) : b[i] <= v })
               IN  SubSeq(b, 1, k) \o <<v>> \o SubSeq(b, k + 1, Len(b))
RemAt(b, i) == SubSeq(b, 1, i - 1) \o SubSeq(b, i + 1, Len(b))
Has(b, v)   == \E i \in 1..Len(b) : b[i] = v
RemVal(b, v) == RemAt(b, CHOOSE i \in 1..Len(b) : b[i] = v /\ \A j \in 1..i-1 : b[j] # v)
Asc(q)      == SortSeq(q, LAMBDA x, y : x < y)
RECURSIVE InsAll(_, _)
InsAll(b, q) == IF q = <<>> THEN b ELSE InsAll(Ins(b, Head(q)), Tail(q))

\* elements no other held element precedes under the comparator
Minimal(b, c) == { b[i] : i \in { i \in 1..Len(b) : \A j \in 1..Len(b) : ~Cmp(c, b[j], b[i]) } }
\* a removal order that the comparator never contradicts
Ordered(q, c)  == \A i \in 1..Len(q) - 1 : ~Cmp(c, q[i + 1], q[i])

Tl(a) == SubSeq(a, 2, Len(a))          \* arguments after the comparator index

PopOut(s) == IF s.b = <<>> THEN { O(s, R(TRUE, 0, <<>>)) }
             ELSE { O([s EXCEPT !.b = RemVal(@, x)], R(TRUE, x, <<>>)) : x \in Minimal(s.b, s.c) }

\* Delete reports (true, nil) and removes exactly one occurrence, or (false, error) and changes nothing.
\* res.ok = the boolean, res.v = 1 iff an error came back.
DeleteOut(s, v) == IF Has(s.b, v) THEN { O([s EXCEPT !.b = RemVal(@, v)], R(TRUE, 0, <<>>)) }
                   ELSE { O(s, R(FALSE, 1, <<>>)) }

\* merge/meld with a second heap built from op.a by FromSlice under the same comparator; the
\* recording carries GetValues() of both INPUTS after the call (ascending, separated by -1);
\* the subject of the following operations is the heap that was returned.
MergeOut(s, q) == { O([s EXCEPT !.b = InsAll(@, q)], R(TRUE, 0, s.b \o <<-1>> \o Asc(q))) }   \* inputs intact
MeldOut(s, q)  == { O([s EXCEPT !.b = InsAll(@, q)], R(TRUE, 0, <<-1>>)) }                    \* inputs emptied

\* Sort: a permutation of the input ordered oppositely to the comparator.  Pure.
SortOK(c, q, r) == Asc(r) = Asc(q) /\ \A i \in 1..Len(r) - 1 : ~Cmp(c, r[i], r[i + 1])
\* terminal drain: Pop until Size() = 0
DrainOK(s, r)   == Asc(r) = s.b /\ Ordered(r, s.c)

\* Out needs the recorded result for the two relational operations (sort, drain): the
\* outcome set is "every sequence satisfying the relation", which is represented by
\* testing the recorded one.  OutR(s, op, res) is the general form; Out(s, op) = OutR
\* without a recorded result is used by the model checker for the functional ones.
OutF(s, op) ==
    CASE op.n = "new"       -> { O([b |-> <<>>, c |-> CmpName(op.a[1])], Unit) }
      [] op.n = "fromslice" -> { O([b |-> Asc(SelectSeq(Tl(op.a), LAMBDA x : x # -7)), c |-> CmpName(op.a[1])], Unit) }
      [] op.n = "push"      -> { O([s EXCEPT !.b = Ins(@, op.a[1])], Unit) }
      [] op.n = "pushn"     -> { O([s EXCEPT !.b = InsAll(@, op.a)], Unit) }      \* one variadic Push
      [] op.n = "pop"       -> PopOut(s)
      [] op.n = "delete"    -> DeleteOut(s, op.a[1])
      [] op.n = "clear"     -> { O([s EXCEPT !.b = <<>>], Unit) }
      \* the heap a Merge / Meld was called on is converted and pushed to afterwards: nothing to do with this one
      [] op.n = "convprev"  -> { O(s, Unit) }
      [] op.n = "convert"   -> { O([s EXCEPT !.c = CmpName(op.a[1])], Unit) }
      \* mergex / meldx: the second heap was built under the opposite comparator; the result is a heap of the receiver
      [] op.n \in {"merge", "mergex"} -> MergeOut(s, op.a)
      [] op.n \in {"meld", "meldx"}   -> MeldOut(s, op.a)
      [] OTHER              -> {}

OutR(s, op, res) ==
    CASE op.n = "sort"  -> IF res.ok /\ ~res.p /\ SortOK(CmpName(op.a[1]), Tl(op.a), res.s)
                             THEN { O(s, res) } ELSE {}
      [] op.n = "drain" -> IF res.ok /\ ~res.p /\ res.v = 0 /\ DrainOK(s, res.s)
                             THEN { O([s EXCEPT !.b = <<>>], res) } ELSE {}
      [] OTHER          -> OutF(s, op)

\* observers: Size, IsEmpty, Peek, GetValues() as a multiset (vals, ascending); lay is the raw layout
ProjOK(s, p) ==
    /\ ~p.pp
    /\ p.size = Len(s.b)
    /\ p.empty = (s.b = <<>>)
    /\ p.vals = s.b
    /\ IF s.b = <<>> THEN p.peek = 0 ELSE p.peek \in Minimal(s.b, s.c)

(***************************************************************************)
(* KF-C03-1 (latent, pinned by TestHeap_MaxHeap's expected array): Delete  *)
(* re-sifts from the root instead of from the vacated slot and never       *)
(* upwards, so the array can stop being a heap although everything the     *)
(* property observes at that step is still right.  Taint trigger (DESIGN   *)
(* 6.2): a successful Delete after which the recorded layout is not heap-  *)
(* ordered switches judging off below that node.  It can never raise an    *)
(* alarm.                                                                  *)
(***************************************************************************)
HeapOrdered(lay, c) == \A i \in 2..Len(lay) : ~Cmp(c, lay[i], lay[i \div 2])
\* (after a Delete that was not followed by an observation - a sparse recording - the array cannot be
\* looked at: the finding may have struck, judging stops below it as long as the finding is open)
Trig(S, e) == IF "KF-C03-1" \in OpenKF /\ e.op.n = "delete" /\ e.res.ok /\ ~e.res.p
                 /\ ("np" \in DOMAIN e.op \/ \E s \in S : ~HeapOrdered(e.proj.lay, s.c))
              THEN {"KF-C03-1"} ELSE {}
KFOut(s, op) == {}
=============================================================================
