SPECIFICATION Spec
CONSTANTS
  Depth = 5
  Ctor <- CtorL
INVARIANT Emit
CHECK_DEADLOCK FALSE
