SPECIFICATION Spec
CONSTANTS
  Vals = {10, 11, 20}
  MaxOps = 4
  MaxSize = 5
  OpenKF = {}
INVARIANTS Conservation DrainSatisfiable
PROPERTIES PopMinimal DeleteExact ConvertKeeps
CHECK_DEADLOCK FALSE
