SPECIFICATION Spec
CONSTANTS
  Keys = {0, 1}
  MaxOps = 3
  UseKF = TRUE
  OpenKF = {"KF-C04-1"}
INVARIANTS SizeIsCount
CHECK_DEADLOCK FALSE
