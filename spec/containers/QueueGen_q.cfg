SPECIFICATION Spec
CONSTANTS
  Depth = 5
  Ctor <- CtorQ
INVARIANT Emit
CHECK_DEADLOCK FALSE
