SPECIFICATION Spec
CONSTANTS
  Alpha = {1, 2, 200}
  MaxLen = 2
  MaxOps = 4
INVARIANTS ExactKeys KeysSorted LongestOK LexTotal
CHECK_DEADLOCK FALSE
