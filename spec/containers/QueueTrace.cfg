SPECIFICATION Spec
INVARIANT NoMismatch
CHECK_DEADLOCK FALSE
