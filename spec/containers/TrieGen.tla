------------------------------- MODULE TrieGen -------------------------------
(* Binding A for the trie: see QueueGen.tla.  Put of the keys a, b, ab, ba, abb and the queries Get,
   StartsWith, Keys and LongestPrefix as calls between them; every query must answer as prescribed. *)
EXTENDS Trie, Json, TLC
CONSTANTS Depth
VARIABLES s, hist
Ctor == [n |-> "new", a |-> <<>>]
KeysU == { <<97>>, <<98>>, <<97, 98>>, <<98, 97>>, <<97, 98, 98>> }
Ops(v) == { [n |-> "put", a |-> <<v>> \o k] : k \in KeysU }
          \cup { [n |-> "get", a |-> k] : k \in { <<97>>, <<97, 98>> } }
          \cup { [n |-> "sw", a |-> k] : k \in { <<97>>, <<98>> } }
          \cup { [n |-> "lp", a |-> <<97, 98, 98, 97>>], [n |-> "keys", a |-> <<>>] }
Init == \E o \in Out(S0, Ctor) : s = o.st /\ hist = << [op |-> Ctor, res |-> o.res] >>
Next == /\ Len(hist) <= Depth
        /\ \E op \in Ops(Len(hist)) : \E o \in Out(s, op) : s' = o.st /\ hist' = Append(hist, [op |-> op, res |-> o.res])
Spec == Init /\ [][Next]_<<s, hist>>
Emit == (Len(hist) = Depth + 1 /\ hist[Len(hist)].op.n # "put") => PrintT(<<"GEN", ToJson(hist)>>)
=============================================================================
