SPECIFICATION Spec
CONSTANTS
  Keys = {0, 1, 2}
  Caps = {1, 2}
  MaxOps = 5
INVARIANTS CapBound OrderIsRecency
PROPERTY Membership
CHECK_DEADLOCK FALSE
