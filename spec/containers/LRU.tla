--------------------------------- MODULE LRU ---------------------------------
(***************************************************************************)
(* C07 - fixed-capacity LRU cache (cache.LRUCache).                        *)
(* Abstract state [order, val, cap]: keys most recently touched first, the *)
(* value of each held key, the capacity (0 = not constructed / rejected).  *)
(* Recency is refreshed by Add, Get and GetOldest only.                    *)
(***************************************************************************)
EXTENDS Integers, Sequences, FiniteSets

NoMap == [k \in {} |-> 0]
S0 == [order |-> <<>>, val |-> NoMap, cap |-> 0]

R(ok, v, s) == [ok |-> ok, v |-> v, s |-> s, p |-> FALSE]
O(st, res)  == [st |-> st, res |-> res]

In(q, k)     == \E i \in 1..Len(q) : q[i] = k
Without(q, k) == SelectSeq(q, LAMBDA x : x # k)
Touch(q, k)  == <<k>> \o Without(q, k)
Put(m, k, v) == [x \in DOMAIN m \cup {k} |-> IF x = k THEN v ELSE m[x]]
Del(m, k)    == [x \in DOMAIN m \ {k} |-> m[x]]
Oldest(s)    == s.order[Len(s.order)]
Youngest(s)  == s.order[1]
Drop(s, k)   == [s EXCEPT !.order = Without(@, k), !.val = Del(@, k)]

\* results: res.ok = the boolean returned, res.s = <<key, value>> returned (zero values when none),
\* res.v = the value returned by Get/Remove
None == R(FALSE, 0, <<0, 0>>)

AddOut(s, k, v) ==
    IF In(s.order, k)
      THEN { O([s EXCEPT !.order = Touch(@, k), !.val = Put(@, k, v)], None) }
    ELSE IF Len(s.order) < s.cap
      THEN { O([s EXCEPT !.order = <<k>> \o @, !.val = Put(@, k, v)], None) }
    \* full: evict, and return, exactly the least recently touched entry
    ELSE LET old == Oldest(s)
             s1  == Drop(s, old)
         IN  { O([s1 EXCEPT !.order = <<k>> \o @, !.val = Put(@, k, v)], R(TRUE, 0, <<old, s.val[old]>>)) }

Out(s, op) ==
    CASE op.n = "new" -> IF op.a[1] >= 1 THEN { O([order |-> <<>>, val |-> NoMap, cap |-> op.a[1]], R(TRUE, 0, <<>>)) }
                         ELSE { O(S0, R(FALSE, 0, <<>>)) }            \* non-positive capacity rejected
      [] op.n = "add" -> AddOut(s, op.a[1], op.a[2])
      [] op.n = "get" -> IF In(s.order, op.a[1])
                           THEN { O([s EXCEPT !.order = Touch(@, op.a[1])], R(TRUE, s.val[op.a[1]], <<>>)) }
                           ELSE { O(s, R(FALSE, 0, <<>>)) }
      [] op.n = "getoldest" -> IF s.order = <<>> THEN { O(s, None) }
                               ELSE { O([s EXCEPT !.order = Touch(@, Oldest(s))], R(TRUE, 0, <<Oldest(s), s.val[Oldest(s)]>>)) }
      [] op.n = "remove" -> IF In(s.order, op.a[1])
                              THEN { O(Drop(s, op.a[1]), R(TRUE, s.val[op.a[1]], <<>>)) }
                              ELSE { O(s, R(FALSE, 0, <<>>)) }
      [] op.n = "removeoldest" -> IF s.order = <<>> THEN { O(s, None) }
                                  ELSE { O(Drop(s, Oldest(s)), R(TRUE, 0, <<Oldest(s), s.val[Oldest(s)]>>)) }
      [] op.n = "removeyoungest" -> IF s.order = <<>> THEN { O(s, None) }
                                    ELSE { O(Drop(s, Youngest(s)), R(TRUE, 0, <<Youngest(s), s.val[Youngest(s)]>>)) }
      [] op.n = "flush" -> { O([s EXCEPT !.order = <<>>, !.val = NoMap], R(TRUE, 0, <<>>)) }
      \* terminal: RemoveOldest until it reports nothing (k1,v1,k2,v2,.. oldest first), then Get of
      \* every key of the alphabet: res.v = how many were still found (map/list disagreement)
      [] op.n = "drain" -> { O([s EXCEPT !.order = <<>>, !.val = NoMap],
                               R(TRUE, 0, [i \in 1..2 * Len(s.order) |->
                                            LET k == s.order[Len(s.order) + 1 - ((i + 1) \div 2)]
                                            IN  IF i % 2 = 1 THEN k ELSE s.val[k]])) }
      [] OTHER -> {}

\* side-effect free observers: Count and GetYoungest (y = <<found, key, value>> with 0/1 for found)
ProjOK(s, p) ==
    /\ ~p.pp
    /\ p.count = Len(s.order)
    /\ p.y = (IF s.order = <<>> THEN <<0, 0, 0>> ELSE <<1, Youngest(s), s.val[Youngest(s)]>>)

KFOut(s, op) == {}
Trig(S, e)   == {}
=============================================================================
