SPECIFICATION Spec
CONSTANTS
  Vals = {1, 2, 3}
  MaxOps = 8
  UseKF = FALSE
  OpenKF = {}
INVARIANTS LIFO Conservation PeekIsNext
CHECK_DEADLOCK FALSE
