-------------------------------- MODULE Trie --------------------------------
(***************************************************************************)
(* C09 - ternary search trie as a string-keyed map with exact prefix       *)
(* queries (trie.Trie).  Keys are sequences of byte codes, so bytes that   *)
(* are not UTF-8 are first class.  Abstract state: m, a function from      *)
(* non-empty keys to values.                                               *)
(***************************************************************************)
EXTENDS Integers, Sequences, FiniteSets, SequencesExt

NoMap == [k \in {} |-> 0]
S0 == [m |-> NoMap]

R(ok, v, s) == [ok |-> ok, v |-> v, s |-> s, p |-> FALSE]
O(st, res)  == [st |-> st, res |-> res]
Unit        == R(TRUE, 0, <<>>)

Put(m, k, v) == [x \in DOMAIN m \cup {k} |-> IF x = k THEN v ELSE m[x]]
Tl(a) == SubSeq(a, 2, Len(a))

Prefix(p, k)  == Len(p) <= Len(k) /\ \A i \in 1..Len(p) : p[i] = k[i]
\* byte-lexicographic order
LexLess(a, b) == \/ (Len(a) < Len(b) /\ Prefix(a, b))
                 \/ \E i \in 1..(IF Len(a) < Len(b) THEN Len(a) ELSE Len(b)) :
                      a[i] < b[i] /\ \A j \in 1..i - 1 : a[j] = b[j]
Sorted(K) == SortSeq(SetToSeq(K), LexLess)

\* the longest stored key that is a prefix of q (empty if none)
LongestPrefix(s, q) ==
    LET C == { k \in DOMAIN s.m : Prefix(k, q) } IN
    IF C = {} THEN <<>> ELSE CHOOSE k \in C : \A x \in C : Len(x) <= Len(k)

\* k1 -1 k2 -1 ... : how the driver flattens a list of keys into a result
RECURSIVE Flat(_)
Flat(ks) == IF ks = <<>> THEN <<>> ELSE Head(ks) \o <<-1>> \o Flat(Tail(ks))

\* op.a = <<value, b1, b2, ...>> with a non-empty key for put; the observers called between the puts
\* (sw = StartsWith, keys, get (+ Contains), lp = LongestPrefix) answer from the current map and change nothing
Out(s, op) ==
    CASE op.n = "new" -> { O(S0, Unit) }
      [] op.n = "put" -> { O([m |-> Put(s.m, Tl(op.a), op.a[1])], Unit) }
      [] op.n = "sw"  -> IF op.a = <<>> THEN { O(s, R(FALSE, 0, <<>>)) }
                         ELSE LET ks == Sorted({ k \in DOMAIN s.m : Prefix(op.a, k) }) IN { O(s, R(TRUE, Len(ks), Flat(ks))) }
      [] op.n = "keys" -> LET ks == Sorted(DOMAIN s.m) IN { O(s, R(TRUE, Len(ks), Flat(ks))) }
      [] op.n = "get" -> IF op.a \in DOMAIN s.m THEN { O(s, R(TRUE, s.m[op.a], <<1>>)) } ELSE { O(s, R(FALSE, 0, <<0>>)) }
      [] op.n = "lp"  -> IF op.a = <<>> THEN { O(s, R(FALSE, 0, <<>>)) } ELSE { O(s, R(TRUE, 0, LongestPrefix(s, op.a))) }
      [] OTHER        -> {}

(***************************************************************************)
(* Observers (DESIGN 7/C09).  The driver lists its probes with the         *)
(* answers, so one ProjOK serves the exhaustive and the seeded runs:       *)
(*   size; keys (Keys() drained; only when p.full);                        *)
(*   gq/gf/gv/cf : Get and Contains of each probe string (incl. empty);    *)
(*   sq/sr/se    : StartsWith(prefix): drained keys, error flag;           *)
(*   lq/lr/le    : LongestPrefix(query): result, error flag.               *)
(* An empty key is absent; an empty prefix or query is an error.           *)
(***************************************************************************)
ProjOK(s, p) ==
    /\ ~p.pp
    /\ p.size = Cardinality(DOMAIN s.m)
    /\ p.full => p.keys = Sorted(DOMAIN s.m)
    /\ \A i \in 1..Len(p.gq) :
         LET k == p.gq[i] IN
         /\ p.gf[i] = (k \in DOMAIN s.m)
         /\ p.cf[i] = (k \in DOMAIN s.m)
         /\ p.gv[i] = (IF k \in DOMAIN s.m THEN s.m[k] ELSE 0)
    /\ \A i \in 1..Len(p.sq) :
         IF p.sq[i] = <<>> THEN p.se[i] /\ p.sr[i] = <<>>
         ELSE ~p.se[i] /\ p.sr[i] = Sorted({ k \in DOMAIN s.m : Prefix(p.sq[i], k) })
    /\ \A i \in 1..Len(p.lq) :
         IF p.lq[i] = <<>> THEN p.le[i] /\ p.lr[i] = <<>>
         ELSE ~p.le[i] /\ p.lr[i] = LongestPrefix(s, p.lq[i])

KFOut(s, op) == {}
Trig(S, e)   == {}
=============================================================================
