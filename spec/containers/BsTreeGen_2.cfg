SPECIFICATION Spec
CONSTANTS
  Depth = 4
  MaxKey = 2
  OpenKF = {}
INVARIANT Emit
CHECK_DEADLOCK FALSE
