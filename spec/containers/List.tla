-------------------------------- MODULE List --------------------------------
(***************************************************************************)
(* C19 - linked lists as sequences (list.SList, list.DList).               *)
(* Abstract state [k, q]: k = "s" | "d", q the non-empty sequence of       *)
(* values, front first.  Inserted values are distinct (driver discipline), *)
(* node handles come from Find immediately before use.                     *)
(* Where the statement leaves the effect open (Shift/Pop on a list of one  *)
(* element) the spec accepts "unchanged" and, for DList.Shift - which the  *)
(* linked queue relies on - "value reset to zero".                         *)
(***************************************************************************)
EXTENDS Integers, Sequences, FiniteSets

CONSTANT OpenKF

\* h: position of the node behind a handle the caller HOLDS across later edits (0 = none); see Out
S0 == [k |-> "none", q |-> <<>>, h |-> 0]

R(ok, v, s) == [ok |-> ok, v |-> v, s |-> s, p |-> FALSE]
O(st, res)  == [st |-> st, res |-> res]
Unit        == R(TRUE, 0, <<>>)
Err         == R(FALSE, 0, <<>>)

Idx(q, x)   == CHOOSE i \in 1..Len(q) : q[i] = x /\ \A j \in 1..i - 1 : q[j] # x     \* first occurrence
In(q, x)    == \E i \in 1..Len(q) : q[i] = x
InsAt(q, i, v) == SubSeq(q, 1, i - 1) \o <<v>> \o SubSeq(q, i, Len(q))              \* v becomes q'[i]
RemAt(q, i)    == SubSeq(q, 1, i - 1) \o SubSeq(q, i + 1, Len(q))

Base(s, op) ==
    CASE op.n = "news"    -> { O([k |-> "s", q |-> <<op.a[1]>>, h |-> 0], Unit) }
      [] op.n = "newd"    -> { O([k |-> "d", q |-> <<op.a[1]>>, h |-> 0], Unit) }
      \* a list built by Init(a[1]) and Append of the rest
      [] op.n = "newsn"   -> { O([k |-> "s", q |-> op.a, h |-> 0], Unit) }
      [] op.n = "newdn"   -> { O([k |-> "d", q |-> op.a, h |-> 0], Unit) }
      [] op.n = "unshift" -> { O([s EXCEPT !.q = <<op.a[1]>> \o @], Unit) }
      [] op.n = "append"  -> { O([s EXCEPT !.q = Append(@, op.a[1])], Unit) }
      [] op.n = "shift"   -> IF Len(s.q) > 1 THEN { O([s EXCEPT !.q = Tail(@)], Unit) }
                             ELSE { O(s, Unit) } \cup (IF s.k = "d" THEN { O([s EXCEPT !.q = <<0>>], Unit) } ELSE {})
      [] op.n = "pop"     -> IF Len(s.q) > 1 THEN { O([s EXCEPT !.q = SubSeq(@, 1, Len(@) - 1)], Unit) }
                             ELSE { O(s, Unit) }
      \* op.a = <<x, v>>: node := Find(x); InsertAfter/Before(node, v).  An absent x is an error.
      [] op.n = "insafter"  -> IF In(s.q, op.a[1]) THEN { O([s EXCEPT !.q = InsAt(@, Idx(@, op.a[1]) + 1, op.a[2])], Unit) }
                               ELSE { O(s, Err) }
      [] op.n = "insbefore" -> IF In(s.q, op.a[1]) THEN { O([s EXCEPT !.q = InsAt(@, Idx(@, op.a[1]), op.a[2])], Unit) }
                               ELSE { O(s, Err) }
      \* Delete removes exactly that node, refusing to remove the only one; res.v = 2 when Find
      \* did not produce a handle and Delete was therefore not called
      [] op.n = "delete"  -> IF ~In(s.q, op.a[1]) THEN { O(s, R(FALSE, 2, <<>>)) }
                             ELSE IF Len(s.q) = 1 THEN { O(s, Err) }
                             ELSE { O([s EXCEPT !.q = RemAt(@, Idx(@, op.a[1]))], Unit) }
      [] op.n = "replace" -> IF In(s.q, op.a[1]) THEN { O([s EXCEPT !.q[Idx(s.q, op.a[1])] = op.a[2]], Unit) }
                             ELSE { O(s, Err) }
      [] OTHER -> {}

(***************************************************************************)
(* Handles held across edits ("Delete removes exactly that node" also when *)
(* other nodes carry the same value by then).  hold x keeps the node Find  *)
(* returns for x if it is not the first node; it stays valid across        *)
(* Append, Unshift, InsertAfter and Replace - edits that neither remove    *)
(* nor re-seat an existing node in any linked list - and is dropped by the *)
(* driver before every other edit.  delheld deletes the held node.         *)
(***************************************************************************)
HAfter(s, op, o) ==
    IF s.h = 0 THEN 0
    ELSE CASE op.n \in {"append", "replace"} -> s.h
           [] op.n = "unshift"  -> s.h + 1
           [] op.n = "insafter" -> IF o.res.ok /\ Idx(s.q, op.a[1]) + 1 <= s.h THEN s.h + 1 ELSE s.h
           [] OTHER -> 0

Out(s, op) ==
    CASE op.n = "hold" -> LET i == IF In(s.q, op.a[1]) THEN Idx(s.q, op.a[1]) ELSE 0 IN
                          IF i >= 2 THEN { O([s EXCEPT !.h = i], Unit) } ELSE { O([s EXCEPT !.h = 0], Err) }
      [] op.n = "delheld" -> IF s.h = 0 THEN { O(s, R(FALSE, 2, <<>>)) }
                             ELSE { O([s EXCEPT !.q = RemAt(@, s.h), !.h = 0], Unit) }
      [] OTHER -> { O([o.st EXCEPT !.h = HAfter(s, op, o)], o.res) : o \in Base(s, op) }

\* observers: Each (twice, around the Finds: observing does not change the list), First/Last
\* (DList only), Find of every probe value: fq the probes, ff found, fv the value in the node
ProjOK(s, p) ==
    /\ ~p.pp
    /\ p.each = s.q /\ p.each2 = s.q
    /\ s.k = "d" => (p.first = s.q[1] /\ p.last = s.q[Len(s.q)])
    /\ \A i \in 1..Len(p.fq) : p.ff[i] = In(s.q, p.fq[i]) /\ (p.ff[i] => p.fv[i] = p.fq[i])

KFOut(s, op) == {}
Trig(S, e)   == {}
=============================================================================
