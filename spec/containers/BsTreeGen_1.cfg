SPECIFICATION Spec
CONSTANTS
  Depth = 5
  MaxKey = 1
  OpenKF = {}
INVARIANT Emit
CHECK_DEADLOCK FALSE
