------------------------------- MODULE LRUMC -------------------------------
(***************************************************************************)
(* Exhaustive model check of LRU!Out against the wording of C07 over a     *)
(* touch log: log[i] is the key whose recency call i refreshed (or -1).    *)
(***************************************************************************)
EXTENDS LRU, TLC
CONSTANTS Keys, Caps, MaxOps
VARIABLES s, res, last, log, nops
vars == <<s, res, last, log, nops>>

Ops == { [n |-> "add", a |-> <<k, 0>>] : k \in Keys } \cup { [n |-> "get", a |-> <<k>>] : k \in Keys }
       \cup { [n |-> "remove", a |-> <<k>>] : k \in Keys }
       \cup { [n |-> x, a |-> <<>>] : x \in {"getoldest", "removeoldest", "removeyoungest", "flush"} }

Init == \E c \in Caps : \E o \in Out(S0, [n |-> "new", a |-> <<c>>]) :
          s = o.st /\ res = o.res /\ last = [n |-> "new", a |-> <<c>>] /\ log = <<>> /\ nops = 0

\* which key a call touches (refreshes): Add, successful Get, GetOldest - and nothing else
Touched(op, o) == CASE op.n = "add" -> op.a[1]
                    [] op.n = "get" /\ o.res.ok -> op.a[1]
                    [] op.n = "getoldest" /\ o.res.ok -> o.res.s[1]
                    [] OTHER -> -1
Next == /\ nops < MaxOps
        /\ \E op0 \in Ops :
             LET op == IF op0.n = "add" THEN [op0 EXCEPT !.a[2] = nops + 1] ELSE op0 IN
             \E o \in Out(s, op) :
               /\ s' = o.st /\ res' = o.res /\ last' = op /\ nops' = nops + 1
               /\ log' = Append(log, Touched(op, o))
Spec == Init /\ [][Next]_vars

LastTouch(k) == LET I == { i \in 1..Len(log) : log[i] = k } IN
                IF I = {} THEN 0 ELSE CHOOSE i \in I : \A j \in I : j <= i
Held == { s.order[i] : i \in 1..Len(s.order) }

\* Count never exceeds the capacity
CapBound == Len(s.order) <= s.cap /\ Cardinality(Held) = Len(s.order) /\ DOMAIN s.val = Held
\* the order IS the recency order of the touch log, so oldest/youngest designate the least/most
\* recently touched entry and the eviction victim is the least recently touched one
OrderIsRecency == \A i, j \in 1..Len(s.order) : i < j => LastTouch(s.order[i]) > LastTouch(s.order[j])
\* a lookup finds a key exactly when it was added and not since removed or evicted, with its latest value
Membership == [][ LET k == IF Len(last'.a) > 0 THEN last'.a[1] ELSE -1 IN
                  /\ (last'.n = "add" => k \in Held' /\ s'.val[k] = last'.a[2]
                                         /\ Held' \ {k} \subseteq Held
                                         /\ (res'.ok => /\ Len(s.order) = s.cap /\ k \notin Held
                                                        /\ Held \ Held' = {res'.s[1]}
                                                        /\ \A x \in Held : LastTouch(res'.s[1]) <= LastTouch(x))
                                         /\ (~res'.ok => Held \subseteq Held'))
                  /\ (last'.n = "get" => Held' = Held /\ res'.ok = (k \in Held) /\ (res'.ok => res'.v = s.val[k]))
                  /\ (last'.n = "remove" => Held' = Held \ {k} /\ res'.ok = (k \in Held))
                  /\ (last'.n \in {"removeoldest", "removeyoungest"} =>
                        IF Held = {} THEN ~res'.ok /\ Held' = {}
                        ELSE res'.ok /\ Held' = Held \ {res'.s[1]} /\ res'.s[1] \in Held /\ res'.s[2] = s.val[res'.s[1]]
                             /\ \A x \in Held : IF last'.n = "removeoldest" THEN LastTouch(res'.s[1]) <= LastTouch(x)
                                                ELSE LastTouch(res'.s[1]) >= LastTouch(x))
                  /\ (last'.n = "getoldest" => Held' = Held)
                  /\ (last'.n = "flush" => Held' = {}) ]_vars
=============================================================================
