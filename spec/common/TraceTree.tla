----------------------------- MODULE TraceTree -----------------------------
(***************************************************************************)
(* Generic validator for tree-shaped recordings of the real code           *)
(* (DESIGN.md 4.1).  The recording is an ndjson file: line i is node i     *)
(* with fields op, res, proj, kids (line numbers of the children); line 1  *)
(* is the synthetic root.  A container module supplies                     *)
(*                                                                         *)
(*   TOut(s, e)    the set of outcomes [st, res] the PROPERTY allows for   *)
(*                 the recorded event e (normally X!Out(s, e.op); the      *)
(*                 event is passed so that relational results - "any       *)
(*                 permutation ordered by the comparator" - can be judged  *)
(*                 by testing the recorded one)                            *)
(*   TKFOut(s, e)  outcomes [st, res, kf, taint] of OPEN known findings    *)
(*   ProjOK(s, p)  is the recorded projection p consistent with state s    *)
(*   Trig(S, e)    ids of latent findings triggered by event e (a set;     *)
(*                 non-empty switches judging off below e, never on)       *)
(*   S0            the abstract state before the constructor               *)
(*                                                                         *)
(* The walker keeps the SET of abstract states consistent with everything  *)
(* observed so far (subset construction), so a spec that is permissive     *)
(* never causes a per-branch false alarm; there is exactly one TLC state   *)
(* per trace node.  A node that no ideal outcome and no named deviation    *)
(* explains sets err to its line number: invariant NoMismatch fails and    *)
(* TLC's counterexample is the operation path to the offending call.       *)
(***************************************************************************)
EXTENDS Naturals, Sequences, FiniteSets, TLC

CONSTANTS TOut(_, _), TKFOut(_, _), ProjOK(_, _), Trig(_, _), S0,
          T       \* the recording; defined in the ROOT module as
                  \* ndJsonDeserialize(IOEnv.TRACE) so that TLC evaluates it once

VARIABLES S,      \* candidate abstract states
          node,   \* current line of the recording
          err,    \* 0, or the line that could not be explained
          kf,     \* known-finding ids hit on the path to this node
          taint   \* TRUE: below a deviation the abstract state cannot follow

vars == <<S, node, err, kf, taint>>

Init == /\ S = {S0}
        /\ node = 1
        /\ err = 0
        /\ kf = {}
        /\ taint = FALSE

\* (a call flagged np in a linear recording was not followed by an observation: only its result is judged)
Explained(out(_, _), e) ==
    { o \in UNION { out(s, e) : s \in S } : o.res = e.res /\ ("np" \in DOMAIN e.op \/ ProjOK(o.st, e.proj)) }

Walk(i) ==
    LET e  == T[i]
        m  == Explained(TOut, e)
        mk == Explained(TKFOut, e)
        np == "np" \in DOMAIN e.op
    IN  /\ node' = i
        /\ IF taint
             THEN UNCHANGED <<S, err, kf, taint>>                    \* walked, not judged
             ELSE IF m # {} /\ ~(np /\ mk # {})
               THEN LET tr == Trig(S, e)
                    IN  /\ S' = { o.st : o \in m }
                        /\ err' = 0
                        /\ kf' = kf \cup tr
                        /\ taint' = (tr # {})
                        /\ (tr # {} => PrintT(<<"KFHIT", i, tr>>))
               ELSE IF mk # {}
                 THEN \* (after an unobserved call nothing tells the ideal outcome from the deviation: both are kept)
                      /\ S' = { o.st : o \in mk } \cup (IF np THEN { o.st : o \in m } ELSE {})
                      /\ err' = 0
                      /\ kf' = kf \cup { o.kf : o \in mk }
                      /\ taint' = (\E o \in mk : o.taint)
                      /\ PrintT(<<"KFHIT", i, { o.kf : o \in mk }>>)
                 ELSE /\ err' = i
                      /\ PrintT(<<"MISMATCH", i>>)
                      /\ UNCHANGED <<S, kf, taint>>

Next == /\ err = 0
        /\ \E k \in 1..Len(T[node].kids) : Walk(T[node].kids[k])

Spec == Init /\ [][Next]_vars

NoMismatch == err = 0

\* every recorded line was visited: distinct states = lines (checked by ./check
\* from TLC's statistics; stated here for the reader)
NodeCount == Len(T)
=============================================================================
