------------------------------- MODULE HBModel -------------------------------
(***************************************************************************)
(* The checker checked (DESIGN.md 7/C01): is the vector-clock acceptor of  *)
(* HappensBefore.tla the happens-before relation it claims to be, and does *)
(* acceptance mean what the property says?                                 *)
(*                                                                         *)
(* Threads run arbitrary programs over RWMutexes with Go's semantics - a   *)
(* writer excludes everybody, readers exclude writers, a WAITING writer    *)
(* blocks new readers - and access cells in two steps (begin / end), so    *)
(* that "two threads are inside conflicting accesses at the same time" is  *)
(* a state.  Every step is logged as the event the scheduler would log.    *)
(* TLC checks in every reachable state:                                    *)
(*   Excl       the lock table never shows a writer next to anyone else    *)
(*   Exact      the acceptor rejects the log  <=>  the log contains two    *)
(*              conflicting accesses of different threads that are not     *)
(*              ordered by the transitive closure of program order and     *)
(*              release -> later acquire edges (declarative definition)    *)
(*   Sound      an accepted log never shows two threads inside conflicting *)
(*              accesses at the same time                                  *)
(*   Complete   (negative control, expected to FAIL) such a state is       *)
(*              reachable at all                                           *)
(*   Transfer   (negative control, expected to FAIL) "every conflicting    *)
(*              pair shares a lock" - the lockset rule - is implied by     *)
(*              acceptance: it is not (ownership transfer)                 *)
(***************************************************************************)
EXTENDS HappensBefore, TLC
CONSTANTS Threads, Locks, Cells, MaxSteps
VARIABLES w, r, waitingW, inacc, log
vars == <<w, r, waitingW, inacc, log>>
\* w[m]: the writer or 0; r[m]: function thread -> read holdings; waitingW[m]: announced writers;
\* inacc[t]: <<>> or <<cell, write>>; log: the sequence of events [n, a] (+ L = locks held, for Transfer)

Ev(n, a) == [n |-> n, a |-> a]
Init == /\ w = [m \in Locks |-> 0] /\ r = [m \in Locks |-> [t \in Threads |-> 0]]
        /\ waitingW = [m \in Locks |-> {}] /\ inacc = [t \in Threads |-> <<>>] /\ log = <<>>

Readers(m) == { t \in Threads : r[m][t] > 0 }
Held(t) == { <<m, 1>> : m \in { m \in Locks : w[m] = t } } \cup { <<m, 0>> : m \in { m \in Locks : r[m][t] > 0 } }

RLock(t, m) == /\ inacc[t] = <<>> /\ w[m] = 0 /\ waitingW[m] \ {t} = {} /\ r[m][t] = 0
               /\ r' = [r EXCEPT ![m][t] = @ + 1] /\ log' = Append(log, Ev("acq", <<t, m, 0>>)) /\ UNCHANGED <<w, waitingW, inacc>>
RUnlock(t, m) == /\ inacc[t] = <<>> /\ r[m][t] > 0 /\ r' = [r EXCEPT ![m][t] = @ - 1]
                 /\ log' = Append(log, Ev("rel", <<t, m, 0>>)) /\ UNCHANGED <<w, waitingW, inacc>>
Announce(t, m) == /\ inacc[t] = <<>> /\ t \notin waitingW[m] /\ w[m] # t /\ r[m][t] = 0
                  /\ (w[m] # 0 \/ Readers(m) # {})
                  /\ waitingW' = [waitingW EXCEPT ![m] = @ \cup {t}] /\ UNCHANGED <<w, r, inacc, log>>
Lock(t, m) == /\ inacc[t] = <<>> /\ w[m] = 0 /\ Readers(m) = {}
              /\ w' = [w EXCEPT ![m] = t] /\ waitingW' = [waitingW EXCEPT ![m] = @ \ {t}]
              /\ log' = Append(log, Ev("acq", <<t, m, 1>>)) /\ UNCHANGED <<r, inacc>>
Unlock(t, m) == /\ inacc[t] = <<>> /\ w[m] = t /\ w' = [w EXCEPT ![m] = 0]
                /\ log' = Append(log, Ev("rel", <<t, m, 1>>)) /\ UNCHANGED <<r, waitingW, inacc>>
Begin(t, c, wr) == /\ inacc[t] = <<>> /\ \A m \in Locks : t \notin waitingW[m]
                   /\ inacc' = [inacc EXCEPT ![t] = <<c, wr>>]
                   /\ log' = Append(log, [n |-> "acc", a |-> <<t, c, IF wr THEN 1 ELSE 0, 0>>, L |-> Held(t)])
                   /\ UNCHANGED <<w, r, waitingW>>
End(t) == /\ inacc[t] # <<>> /\ inacc' = [inacc EXCEPT ![t] = <<>>] /\ UNCHANGED <<w, r, waitingW, log>>

Next == /\ Len(log) < MaxSteps
        /\ \E t \in Threads :
             \/ \E m \in Locks : RLock(t, m) \/ RUnlock(t, m) \/ Announce(t, m) \/ Lock(t, m) \/ Unlock(t, m)
             \/ \E c \in Cells, wr \in BOOLEAN : Begin(t, c, wr)
             \/ End(t)
Spec == Init /\ [][Next]_vars

Excl == \A m \in Locks : w[m] # 0 => Readers(m) = {}

\* the acceptor run over the log
RECURSIVE Accept(_, _)
Accept(SS, i) == IF i > Len(log) \/ SS = {} THEN SS
                 ELSE Accept(UNION { Apply(s, log[i]) : s \in SS }, i + 1)
Accepted == Accept({S0}, 1) # {}

\* the declarative definition: edges i -> j (i < j) of program order and synchronisation, closed transitively
Idx == 1..Len(log)
Edge(i, j) == /\ i < j
              /\ \/ log[i].a[1] = log[j].a[1]
                 \/ /\ log[i].n = "rel" /\ log[j].n = "acq" /\ log[i].a[2] = log[j].a[2]
                    /\ (log[i].a[3] = 1 \/ log[j].a[3] = 1)
RECURSIVE Reach(_, _)
Reach(F, j) == LET G == F \cup { k \in Idx : \E i \in F : Edge(i, k) } IN IF G = F THEN j \in F ELSE Reach(G, j)
HB(i, j) == Reach({i}, j)
Conflict(i, j) == /\ i < j /\ log[i].n = "acc" /\ log[j].n = "acc" /\ log[i].a[1] # log[j].a[1]
                  /\ log[i].a[2] = log[j].a[2] /\ (log[i].a[3] = 1 \/ log[j].a[3] = 1)
HasRace == \E i, j \in Idx : Conflict(i, j) /\ ~HB(i, j)
Exact == Accepted <=> ~HasRace

Clash == \E t1, t2 \in Threads : t1 # t2 /\ inacc[t1] # <<>> /\ inacc[t2] # <<>>
                                 /\ inacc[t1][1] = inacc[t2][1] /\ (inacc[t1][2] \/ inacc[t2][2])
Sound    == Accepted => ~Clash
Complete == ~Clash
Excluding(L1, L2) == \E l1 \in L1, l2 \in L2 : l1[1] = l2[1] /\ (l1[2] = 1 \/ l2[2] = 1)
Transfer == Accepted => \A i, j \in Idx : Conflict(i, j) => Excluding(log[i].L, log[j].L)
=============================================================================
