SPECIFICATION Spec
CONSTANTS
  Threads = {1, 2}
  Locks = {1, 2}
  Cells = {1}
  MaxSteps = 10
  Recursive = FALSE
INVARIANTS Excl Sound
CHECK_DEADLOCK FALSE
