------------------------------ MODULE DiscTrace ------------------------------
EXTENDS HappensBefore, Json, IOUtils
VARIABLES S, node, err, kf, taint
T == ndJsonDeserialize(IOEnv.TRACE)
TOut(s, e)   == Out(s, e.op)
TKFOut(s, e) == KFOut(s, e.op)
TT == INSTANCE TraceTree
Spec == TT!Spec
NoMismatch == TT!NoMismatch
=============================================================================
