---------------------------- MODULE HappensBefore ----------------------------
(***************************************************************************)
(* C01, memory clause: "no two calls perform unsynchronised conflicting    *)
(* memory accesses" - as an acceptor of the event stream of ONE execution  *)
(* of the probed scratch copy under the controlled scheduler:              *)
(*   acq(t, m, w) / rel(t, m, w)   thread t acquired / releases lock m     *)
(*                                 (w = 1 write mode, 0 read mode)         *)
(*   acc(t, c, w, site)            thread t reads (w = 0) or writes cell c *)
(*   hand(t, c)                    cell c was handed back to the caller    *)
(*   end(B)                        the execution is over                   *)
(* Two accesses conflict when they touch the same cell from different      *)
(* threads and one of them writes.  A conflicting pair is synchronised     *)
(* when the earlier one happens before the later one in the sense of the   *)
(* Go memory model: program order, and an Unlock before every later        *)
(* Lock/RLock of the same mutex, an RUnlock before every later Lock (an    *)
(* RWMutex orders nothing between two readers).  The acceptor carries the  *)
(* usual vector clocks: vc[t] the clock of thread t, lk[m] the clocks      *)
(* published by the last Unlock (w) and by the RUnlocks (r) of m, wr[c]    *)
(* the epoch <<thread, clock>> of the last write to c, rd[c] the epochs of *)
(* the reads since.  An access that is not ordered after the accesses it   *)
(* conflicts with has no successor state: the stream is rejected.          *)
(* HBModel.tla checks this acceptor against the declarative definition     *)
(* (transitive closure over the stream) on every execution of small lock   *)
(* programs.                                                               *)
(*                                                                         *)
(* The first version of this module (LockDiscipline) demanded a common     *)
(* lock held by both sides - a lockset rule.  It rejected a correct        *)
(* ownership transfer: Meld detaching the backing array under the write    *)
(* lock and reading it after Unlock, when nobody else can reach it any     *)
(* more.  Happens-before is what the property states; the interleavings    *)
(* in which an unprotected access is not ordered are found by the          *)
(* exploration (every bare access is a scheduling point).                  *)
(*                                                                         *)
(* Memory handed to the caller must never be written again by the          *)
(* container: the caller reads it without any lock at a time of its own    *)
(* choosing.  The lock events must follow the RWMutex protocol and         *)
(* balance at the end.                                                     *)
(***************************************************************************)
EXTENDS Integers, Sequences, FiniteSets

NoFn == [x \in {} |-> 0]
S0 == [held |-> NoFn, vc |-> NoFn, lk |-> NoFn, wr |-> NoFn, rd |-> NoFn, handed |-> {}]
R          == [ok |-> TRUE, v |-> 0, s |-> <<>>, p |-> FALSE]
O(st)      == [st |-> st, res |-> R]

Cnt(s, k)    == IF k \in DOMAIN s.held THEN s.held[k] ELSE 0
Bump(s, k, d) == [s EXCEPT !.held = [x \in DOMAIN s.held \cup {k} |-> IF x = k THEN Cnt(s, k) + d ELSE s.held[x]]]
HeldBy(s, m, w) == { k[1] : k \in { k \in DOMAIN s.held : k[2] = m /\ k[3] = w /\ s.held[k] > 0 } }

\* vector clocks: absent component = 0; a thread's own component starts at 1
At(v, u)    == IF u \in DOMAIN v THEN v[u] ELSE 0
Join(a, b)  == [u \in DOMAIN a \cup DOMAIN b |-> IF At(a, u) >= At(b, u) THEN At(a, u) ELSE At(b, u)]
Put(f, x, v) == [y \in DOMAIN f \cup {x} |-> IF y = x THEN v ELSE f[y]]
Clock(s, t) == IF t \in DOMAIN s.vc THEN s.vc[t] ELSE Put(NoFn, t, 1)
LockOf(s, m) == IF m \in DOMAIN s.lk THEN s.lk[m] ELSE [w |-> NoFn, r |-> NoFn]

\* the access of thread t (clock C) to cell c is ordered after the last write / after every read since
AfterWrite(s, t, c, C) == c \notin DOMAIN s.wr \/ s.wr[c][1] = t \/ s.wr[c][2] <= At(C, s.wr[c][1])
AfterReads(s, t, c, C) == c \notin DOMAIN s.rd \/ \A u \in DOMAIN s.rd[c] \ {t} : s.rd[c][u] <= At(C, u)
Race(s, t, c, w) == LET C == Clock(s, t) IN ~AfterWrite(s, t, c, C) \/ (w = 1 /\ ~AfterReads(s, t, c, C))

Apply(s, op) ==
    CASE op.n = "acq" -> LET t == op.a[1]  m == op.a[2]  w == op.a[3]  L == LockOf(s, m) IN
                         \* RWMutex: a writer excludes everybody, readers exclude writers
                         IF (w = 1 /\ (HeldBy(s, m, 0) \cup HeldBy(s, m, 1)) \ {t} # {}) \/ (w = 0 /\ HeldBy(s, m, 1) \ {t} # {})
                           THEN {}
                           ELSE { [Bump(s, <<t, m, w>>, 1) EXCEPT
                                     !.vc = Put(@, t, Join(Clock(s, t), IF w = 1 THEN Join(L.w, L.r) ELSE L.w))] }
      [] op.n = "rel" -> LET t == op.a[1]  m == op.a[2]  w == op.a[3]  L == LockOf(s, m)  C == Clock(s, t) IN
                         IF Cnt(s, <<t, m, w>>) > 0
                           THEN { [Bump(s, <<t, m, w>>, -1) EXCEPT
                                     !.lk = Put(@, m, IF w = 1 THEN [w |-> C, r |-> L.r] ELSE [w |-> L.w, r |-> Join(L.r, C)]),
                                     !.vc = Put(@, t, Put(C, t, C[t] + 1))] }
                           ELSE {}
      [] op.n = "acc" -> LET t == op.a[1]  c == op.a[2]  w == op.a[3]  C == Clock(s, t) IN
                         IF Race(s, t, c, w) \/ (w = 1 /\ c \in s.handed) THEN {}
                         ELSE IF w = 1 THEN { [s EXCEPT !.wr = Put(@, c, <<t, C[t]>>), !.rd = Put(@, c, NoFn)] }
                         ELSE { [s EXCEPT !.rd = Put(@, c, Put(IF c \in DOMAIN s.rd THEN s.rd[c] ELSE NoFn, t, C[t]))] }
      [] op.n = "hand" -> { [s EXCEPT !.handed = @ \cup {op.a[2]}] }
      [] op.n = "end"  -> IF Len(op.a) = 0 /\ \A k \in DOMAIN s.held : s.held[k] = 0 THEN { s } ELSE {}
      [] OTHER -> {}

Out(s, op) == { O(st) : st \in Apply(s, op) }
ProjOK(s, p) == TRUE
KFOut(s, op) == {}
Trig(S, e)   == {}
=============================================================================
