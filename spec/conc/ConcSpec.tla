------------------------------- MODULE ConcSpec -------------------------------
(***************************************************************************)
(* The sequential meaning of the single-element operations of the eight    *)
(* lock-guarded containers, assembled from the property-level modules of   *)
(* C03-C06, C08, C09 (their Out operators are reused, not restated) plus   *)
(* the observers as operations.  op.f names the container type.            *)
(* A behaviour that an OPEN sequential finding pins (KFOut of Stack and    *)
(* BsTree) is part of the sequential meaning here: C02 asks for            *)
(* equivalence with running the same calls one at a time, and what one     *)
(* call at a time does is judged by C04/C06, not again by C02.             *)
(***************************************************************************)
EXTENDS Integers, Sequences, FiniteSets
CONSTANT OpenKF

Q  == INSTANCE Queue
St == INSTANCE Stack
H  == INSTANCE Heap
B  == INSTANCE BsTree
Tr == INSTANCE Trie
E  == INSTANCE ExpCache

R(ok, v, s) == [ok |-> ok, v |-> v, s |-> s, p |-> FALSE]
O(st, res)  == [st |-> st, res |-> res]
Plain(S)    == { O(o.st, o.res) : o \in S }

QOut(s, op) ==
    CASE op.n = "size"   -> { O(s, R(TRUE, Len(s.q), <<>>)) }
      [] op.n = "peek"   -> { O(s, R(TRUE, IF s.q = <<>> THEN 0 ELSE Head(s.q), <<>>)) }
      [] op.n = "search" -> { O(s, R(Q!Holds(s, op.a[1]), 0, <<>>)) }
      [] OTHER           -> Q!Out(s, op)

SOut(s, op) ==
    CASE op.n = "size"   -> { O(s, R(TRUE, s.n, <<>>)) }
      [] op.n = "peek"   -> { O(s, R(TRUE, IF s.q = <<>> THEN 0 ELSE St!Last(s.q), <<>>)) }
      [] op.n = "search" -> { O(s, R(St!Holds(s, op.a[1]), 0, <<>>)) }
      [] OTHER           -> St!Out(s, op) \cup Plain(St!KFOut(s, op))

HOut(s, op, res) ==
    CASE op.n = "size" -> { O(s, R(TRUE, Len(s.b), <<>>)) }
      [] op.n = "peek" -> IF s.b = <<>> THEN { O(s, R(TRUE, 0, <<>>)) }
                          ELSE { O(s, R(TRUE, x, <<>>)) : x \in H!Minimal(s.b, s.c) }
      [] OTHER         -> H!OutR(s, op, res)

BOut(s, op) ==
    CASE op.n = "size" -> { O(s, R(TRUE, Cardinality(DOMAIN s.m) - s.drift, <<>>)) }
      [] op.n = "get"  -> { O(s, IF op.a[1] \in DOMAIN s.m THEN R(TRUE, s.m[op.a[1]], <<>>) ELSE R(FALSE, 0, <<>>)) }
      [] op.n = "trav" -> LET ks == B!KeySeq(s) IN
                          { O(s, R(TRUE, 0, [i \in 1..2 * Len(ks) |-> IF i % 2 = 1 THEN ks[(i + 1) \div 2] ELSE s.m[ks[i \div 2]]])) }
      [] OTHER         -> B!Out(s, op) \cup Plain(B!KFOut(s, op))

\* trie keys: get/contains carry the key bytes in op.a
TrOut(s, op) ==
    CASE op.n = "size"     -> { O(s, R(TRUE, Cardinality(DOMAIN s.m), <<>>)) }
      [] op.n = "get"      -> { O(s, IF op.a \in DOMAIN s.m THEN R(TRUE, s.m[op.a], <<>>) ELSE R(FALSE, 0, <<>>)) }
      [] op.n = "contains" -> { O(s, R(op.a \in DOMAIN s.m, 0, <<>>)) }
      [] OTHER             -> Tr!Out(s, op)

\* the expiring cache with the clock standing still
EOut(s, op) ==
    \* Count may or may not include entries that have expired and are not purged yet
    CASE op.n = "count" -> { O(s, R(TRUE, n, <<>>)) : n \in Cardinality({ k \in DOMAIN s.items : E!SureLive(s, k) })..Cardinality(DOMAIN s.items) }
      [] op.n = "get"   -> (IF E!MayLive(s, op.a[1]) THEN { O(s, R(TRUE, s.items[op.a[1]].v, <<>>)) } ELSE {})
                           \cup (IF ~E!SureLive(s, op.a[1]) THEN { O(s, R(FALSE, 0, <<>>)) } ELSE {})
      [] OTHER          -> E!Out(s, op)

Init == [ty |-> "none"]
\* the constructor call fixes the type; every module has its own initial state
COutR(s, op, res) ==
    LET s0 == CASE op.f = "queue" -> Q!S0 [] op.f = "stack" -> St!S0 [] op.f = "heap" -> H!S0
                [] op.f = "bstree" -> B!S0 [] op.f = "trie" -> Tr!S0 [] op.f = "cache" -> E!S0
        s1 == IF "ty" \in DOMAIN s THEN s0 ELSE s
    IN  CASE op.f = "queue"  -> QOut(s1, op)
          [] op.f = "stack"  -> SOut(s1, op)
          [] op.f = "heap"   -> HOut(s1, op, res)
          [] op.f = "bstree" -> BOut(s1, op)
          [] op.f = "trie"   -> TrOut(s1, op)
          [] op.f = "cache"  -> EOut(s1, op)
          [] OTHER -> {}
=============================================================================
