--------------------------------- MODULE Lin ---------------------------------
(***************************************************************************)
(* C02 - linearizability of a recorded concurrent execution against a      *)
(* sequential specification (DESIGN.md 7/C02).                             *)
(*                                                                         *)
(* The recording is the sequence of events, in the order in which they     *)
(* happened under the controlled scheduler (one thread runs at a time):    *)
(*   obs      a call made while no other call is in progress (set-up and   *)
(*            the observations afterwards): op.x the call, res its result  *)
(*   inv(t)   thread t is about to make call op.x                          *)
(*   ret(t)   that call returned res                                       *)
(*   end      all threads finished (anything else - a deadlock, a panic, a *)
(*            thread left behind - is an event no outcome explains)        *)
(* The instant at which a call takes effect is not recorded: it is an      *)
(* internal step that may happen anywhere between inv and ret.  State:     *)
(* [st, pend] - the container's abstract state and, for every call in      *)
(* progress, the call and (once it has taken effect) its result.  The      *)
(* validator follows the SET of states consistent with the events so far,  *)
(* so the execution is accepted iff SOME order of effects that respects    *)
(* "finished before began" explains every result and every observation     *)
(* afterwards: that is linearizability.                                    *)
(***************************************************************************)
EXTENDS Integers, Sequences, FiniteSets

CONSTANTS COutR(_, _, _),   \* sequential spec: outcomes [st, res] of call op in state st (res: the recorded
                            \* result, consulted only by relational observations such as a drain)
          CInit             \* the abstract state before the constructor

NoPend == [t \in {} |-> 0]
L0 == [st |-> CInit, pend |-> NoPend]
NoRes == [ok |-> FALSE, v |-> 0, s |-> <<>>, p |-> FALSE]

SetP(s, t, v) == [s EXCEPT !.pend = [x \in DOMAIN s.pend \cup {t} |-> IF x = t THEN v ELSE s.pend[x]]]
DelP(s, t)    == [s EXCEPT !.pend = [x \in DOMAIN s.pend \ {t} |-> s.pend[x]]]
Undecided(s)  == { t \in DOMAIN s.pend : s.pend[t].dec = <<>> }

\* one call in progress takes effect
Steps(s) == UNION { { [st |-> o.st, pend |-> [s.pend EXCEPT ![t] = [op |-> s.pend[t].op, dec |-> <<o.res>>]]] :
                        o \in COutR(s.st, s.pend[t].op, NoRes) } : t \in Undecided(s) }

RECURSIVE Closure(_)
Closure(ss) == LET nx == ss \cup UNION { Steps(s) : s \in ss } IN IF nx = ss THEN ss ELSE Closure(nx)

Apply(s, e) ==
    CASE e.op.n = "inv" -> { SetP(s, e.op.a[1], [op |-> e.op.x, dec |-> <<>>]) }
      [] e.op.n = "ret" -> IF e.op.a[1] \in DOMAIN s.pend /\ s.pend[e.op.a[1]].dec = <<e.res>>
                             THEN { DelP(s, e.op.a[1]) } ELSE {}
      [] e.op.n = "obs" -> IF DOMAIN s.pend # {} THEN {}
                           ELSE { [s EXCEPT !.st = o.st] : o \in { o \in COutR(s.st, e.op.x, e.res) : o.res = e.res } }
      [] e.op.n = "end" -> IF DOMAIN s.pend = {} /\ Len(e.op.a) = 0 THEN { s } ELSE {}
      [] OTHER -> {}

Out(s, e) == { [st |-> x, res |-> e.res] : x \in UNION { Apply(c, e) : c \in Closure({s}) } }
=============================================================================
