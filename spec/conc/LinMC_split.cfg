SPECIFICATION Spec
CONSTANTS
  Threads = {1, 2}
  Calls = 2
  Split = TRUE
  OpenKF = {}
INVARIANT Accepted
CHECK_DEADLOCK FALSE
