------------------------------ MODULE SafeTrace ------------------------------
EXTENDS Safe, Json, IOUtils
VARIABLES S, node, err, kf, taint
T == ndJsonDeserialize(IOEnv.TRACE)
TOut(s, e)   == Out(s, e)
TKFOut(s, e) == {}
ProjOK(s, p) == TRUE
Trig(SS, e)  == {}
TT == INSTANCE TraceTree
Spec == TT!Spec
NoMismatch == TT!NoMismatch
=============================================================================
