--------------------------- MODULE LockDiscipline ---------------------------
(***************************************************************************)
(* C01, memory clause - the locking discipline the README's "thread safe"  *)
(* rests on (DESIGN.md 7/C01, Appendix B.2), as an acceptor of the event   *)
(* stream of ONE execution of the probed scratch copy under the controlled *)
(* scheduler:                                                              *)
(*   acq(t, m, w) / rel(t, m, w)   thread t acquired / releases lock m     *)
(*                                 (w = 1 write mode, 0 read mode)         *)
(*   acc(t, c, w, site)            thread t reads (w = 0) or writes cell c *)
(*   hand(t, c)                    cell c was handed back to the caller    *)
(*   end(B)                        the execution is over                   *)
(* Two accesses conflict when they touch the same cell from different      *)
(* threads and one of them writes.  They are ordered only if both threads  *)
(* hold one common lock and at least one holds it in write mode (an        *)
(* RWMutex excludes nothing between two readers).  A conflicting pair that *)
(* is not so protected is a data race whatever the schedule of this run    *)
(* happened to be: that is what makes the check schedule-independent.      *)
(* Memory handed to the caller must never be written again by the          *)
(* container: the caller reads it without any lock.  The lock events must  *)
(* follow the RWMutex protocol and balance at the end.                     *)
(***************************************************************************)
EXTENDS Integers, Sequences, FiniteSets

NoFn == [x \in {} |-> 0]
S0 == [held |-> NoFn, seen |-> NoFn, handed |-> {}]
R          == [ok |-> TRUE, v |-> 0, s |-> <<>>, p |-> FALSE]
O(st)      == [st |-> st, res |-> R]

Cnt(s, k)    == IF k \in DOMAIN s.held THEN s.held[k] ELSE 0
Bump(s, k, d) == [s EXCEPT !.held = [x \in DOMAIN s.held \cup {k} |-> IF x = k THEN Cnt(s, k) + d ELSE s.held[x]]]
Locks(s, t)  == { <<k[2], k[3]>> : k \in { k \in DOMAIN s.held : k[1] = t /\ s.held[k] > 0 } }
HeldBy(s, m, w) == { k[1] : k \in { k \in DOMAIN s.held : k[2] = m /\ k[3] = w /\ s.held[k] > 0 } }

\* the two lock sets exclude each other: one common lock, at least one side in write mode
Excluding(L1, L2) == \E l1 \in L1, l2 \in L2 : l1[1] = l2[1] /\ (l1[2] = 1 \/ l2[2] = 1)

Race(s, t, c, w, L) ==
    c \in DOMAIN s.seen /\ \E r \in s.seen[c] : r.t # t /\ (r.w = 1 \/ w = 1) /\ ~Excluding(r.L, L)

Apply(s, op) ==
    CASE op.n = "acq" -> LET t == op.a[1]  m == op.a[2]  w == op.a[3] IN
                         \* RWMutex: a writer excludes everybody, readers exclude writers
                         IF (w = 1 /\ (HeldBy(s, m, 0) \cup HeldBy(s, m, 1)) \ {t} # {}) \/ (w = 0 /\ HeldBy(s, m, 1) \ {t} # {})
                           THEN {} ELSE { Bump(s, <<t, m, w>>, 1) }
      [] op.n = "rel" -> IF Cnt(s, <<op.a[1], op.a[2], op.a[3]>>) > 0 THEN { Bump(s, <<op.a[1], op.a[2], op.a[3]>>, -1) } ELSE {}
      [] op.n = "acc" -> LET t == op.a[1]  c == op.a[2]  w == op.a[3]  L == Locks(s, t) IN
                         IF Race(s, t, c, w, L) \/ (w = 1 /\ c \in s.handed) THEN {}
                         ELSE { [s EXCEPT !.seen = [x \in DOMAIN s.seen \cup {c} |->
                                   (IF x \in DOMAIN s.seen THEN s.seen[x] ELSE {}) \cup (IF x = c THEN { [t |-> t, w |-> w, L |-> L] } ELSE {})]] }
      [] op.n = "hand" -> { [s EXCEPT !.handed = @ \cup {op.a[2]}] }
      [] op.n = "end"  -> IF Len(op.a) = 0 /\ \A k \in DOMAIN s.held : s.held[k] = 0 THEN { s } ELSE {}
      [] OTHER -> {}

Out(s, op) == { O(st) : st \in Apply(s, op) }
ProjOK(s, p) == TRUE
KFOut(s, op) == {}
Trig(S, e)   == {}
=============================================================================
