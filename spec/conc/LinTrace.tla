------------------------------ MODULE LinTrace ------------------------------
EXTENDS ConcSpec, Json, IOUtils, TLC
VARIABLES S, node, err, kf, taint
T == ndJsonDeserialize(IOEnv.TRACE)
L == INSTANCE Lin WITH CInit <- Init
S0 == L!L0
TOut(s, e)   == L!Out(s, e)
TKFOut(s, e) == {}
ProjOK(s, p) == TRUE
Trig(SS, e)  == {}
TT == INSTANCE TraceTree
Spec == TT!Spec
NoMismatch == TT!NoMismatch
=============================================================================
