SPECIFICATION Spec
CONSTANTS
  Threads = {1, 2}
  Locks = {1}
  Cells = {1}
  MaxSteps = 6
INVARIANTS Excl Exact Sound
CHECK_DEADLOCK FALSE
