SPECIFICATION Spec
CONSTANTS
  Threads = {1, 2}
  Locks = {1}
  Cells = {1}
  MaxSteps = 8
INVARIANTS Transfer
CHECK_DEADLOCK FALSE
