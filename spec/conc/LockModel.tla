------------------------------ MODULE LockModel ------------------------------
(***************************************************************************)
(* Why the discipline of LockDiscipline.tla decides race freedom           *)
(* (DESIGN.md 7/C01, "DisciplineSound"), and the RWMutex the controlled    *)
(* scheduler implements (Appendix B.1).                                    *)
(*                                                                         *)
(* Threads run arbitrary programs over one RWMutex per lock id with Go's   *)
(* semantics - a writer excludes everybody, readers exclude writers, a     *)
(* WAITING writer blocks new readers - and access cells in two steps       *)
(* (begin / end), so that "two threads are inside conflicting accesses at  *)
(* the same time" is a state.  Every access is logged with the locks held. *)
(* TLC checks:                                                             *)
(*   Excl          the lock table never shows a writer next to anyone else *)
(*   Sound         if every conflicting pair of logged accesses from       *)
(*                 different threads shares a lock held in write mode by   *)
(*                 at least one of them (Disciplined), then no state has   *)
(*                 two threads inside conflicting accesses                 *)
(*   Complete      (negative control, expected to FAIL) without the        *)
(*                 premise such a state is reachable                       *)
(* (Recursive = TRUE lets a thread take the read lock twice, the pattern   *)
(* that can deadlock against a waiting writer; the interleaving            *)
(* exploration of C01 looks for it on the real code.)                      *)
(***************************************************************************)
EXTENDS Integers, Sequences, FiniteSets, TLC
CONSTANTS Threads, Locks, Cells, MaxSteps, Recursive
VARIABLES w, r, waitingW, inacc, log, steps
vars == <<w, r, waitingW, inacc, log, steps>>
\* w[m]: the writer or 0; r[m]: function thread -> read holdings; waitingW[m]: announced writers;
\* inacc[t]: <<>> or <<cell, write>>; log: set of [t, c, wr, L] with L = set of <<m, mode>>

Init == /\ w = [m \in Locks |-> 0] /\ r = [m \in Locks |-> [t \in Threads |-> 0]]
        /\ waitingW = [m \in Locks |-> {}] /\ inacc = [t \in Threads |-> <<>>] /\ log = {} /\ steps = 0

Readers(m) == { t \in Threads : r[m][t] > 0 }
Held(t) == { <<m, 1>> : m \in { m \in Locks : w[m] = t } } \cup { <<m, 0>> : m \in { m \in Locks : r[m][t] > 0 } }
Tick == steps' = steps + 1

RLock(t, m) == /\ inacc[t] = <<>> /\ w[m] = 0 /\ waitingW[m] \ {t} = {} /\ w[m] # t
               /\ (Recursive \/ r[m][t] = 0)
               /\ r' = [r EXCEPT ![m][t] = @ + 1] /\ Tick /\ UNCHANGED <<w, waitingW, inacc, log>>
RUnlock(t, m) == /\ inacc[t] = <<>> /\ r[m][t] > 0 /\ r' = [r EXCEPT ![m][t] = @ - 1] /\ Tick /\ UNCHANGED <<w, waitingW, inacc, log>>
Announce(t, m) == /\ inacc[t] = <<>> /\ t \notin waitingW[m] /\ w[m] # t /\ r[m][t] = 0
                  /\ (w[m] # 0 \/ Readers(m) # {})
                  /\ waitingW' = [waitingW EXCEPT ![m] = @ \cup {t}] /\ Tick /\ UNCHANGED <<w, r, inacc, log>>
Lock(t, m) == /\ inacc[t] = <<>> /\ w[m] = 0 /\ Readers(m) = {}
              /\ w' = [w EXCEPT ![m] = t] /\ waitingW' = [waitingW EXCEPT ![m] = @ \ {t}] /\ Tick /\ UNCHANGED <<r, inacc, log>>
Unlock(t, m) == /\ inacc[t] = <<>> /\ w[m] = t /\ w' = [w EXCEPT ![m] = 0] /\ Tick /\ UNCHANGED <<r, waitingW, inacc, log>>
Begin(t, c, wr) == /\ inacc[t] = <<>> /\ \A m \in Locks : t \notin waitingW[m]
                   /\ inacc' = [inacc EXCEPT ![t] = <<c, wr>>]
                   /\ log' = log \cup { [t |-> t, c |-> c, wr |-> wr, L |-> Held(t)] } /\ Tick /\ UNCHANGED <<w, r, waitingW>>
End(t) == /\ inacc[t] # <<>> /\ inacc' = [inacc EXCEPT ![t] = <<>>] /\ Tick /\ UNCHANGED <<w, r, waitingW, log>>

Next == /\ steps < MaxSteps
        /\ \E t \in Threads :
             \/ \E m \in Locks : RLock(t, m) \/ RUnlock(t, m) \/ Announce(t, m) \/ Lock(t, m) \/ Unlock(t, m)
             \/ \E c \in Cells, wr \in BOOLEAN : Begin(t, c, wr)
             \/ End(t)
Spec == Init /\ [][Next]_vars

Excl == \A m \in Locks : w[m] # 0 => Readers(m) = {}

Excluding(L1, L2) == \E l1 \in L1, l2 \in L2 : l1[1] = l2[1] /\ (l1[2] = 1 \/ l2[2] = 1)
Disciplined == \A a, b \in log : (a.t # b.t /\ a.c = b.c /\ (a.wr \/ b.wr)) => Excluding(a.L, b.L)
Clash == \E t1, t2 \in Threads : t1 # t2 /\ inacc[t1] # <<>> /\ inacc[t2] # <<>>
                                 /\ inacc[t1][1] = inacc[t2][1] /\ (inacc[t1][2] \/ inacc[t2][2])
Sound    == Disciplined => ~Clash
Complete == ~Clash
=============================================================================
