--------------------------------- MODULE Safe ---------------------------------
(***************************************************************************)
(* C01, progress clause: whatever the interleaving, no call panics, no     *)
(* thread is left waiting for a lock, and the instance is usable           *)
(* afterwards.  Acceptor of the call-level view of one execution:          *)
(*   inv(t) / ret(t)   a call starts / returns (res.p: it panicked)        *)
(*   obs               a call made after all threads have finished         *)
(*   end(B)            B = the threads that never finished                 *)
(* Results are not judged here (C02 does that for the single-element       *)
(* operations): the state is just the set of threads inside a call.        *)
(***************************************************************************)
EXTENDS Integers, Sequences, FiniteSets
S0 == [in |-> {}]
Out(s, e) ==
    CASE e.op.n = "inv" -> { [st |-> [in |-> s.in \cup {e.op.a[1]}], res |-> e.res] }
      [] e.op.n = "ret" -> IF e.op.a[1] \in s.in /\ ~e.res.p THEN { [st |-> [in |-> s.in \ {e.op.a[1]}], res |-> e.res] } ELSE {}
      [] e.op.n = "obs" -> IF s.in = {} /\ ~e.res.p THEN { [st |-> s, res |-> e.res] } ELSE {}
      [] e.op.n = "end" -> IF s.in = {} /\ Len(e.op.a) = 0 THEN { [st |-> s, res |-> e.res] } ELSE {}
      [] OTHER -> {}          \* "deadlock", "panic": never allowed
=============================================================================
