SPECIFICATION Spec
CONSTANTS
  Threads = {1, 2}
  Calls = 2
  Split = FALSE
  OpenKF = {}
INVARIANT Accepted
CHECK_DEADLOCK FALSE
