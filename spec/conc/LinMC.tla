-------------------------------- MODULE LinMC --------------------------------
(***************************************************************************)
(* The checker checked (DESIGN.md 7/C02).  An operational model of threads *)
(* calling a shared slice queue - invoke, ONE atomic effect, return -      *)
(* generates every history of 2-3 threads; TLC checks that the acceptor of *)
(* Lin.tla (the subset construction the trace validator runs) accepts all  *)
(* of them.  With Split = TRUE the size call reads the length in one step  *)
(* and a dequeue is allowed to return its element in one step and remove   *)
(* it in a later one: histories appear that no order of atomic calls       *)
(* explains, and the same acceptor must reject some (negative control).    *)
(***************************************************************************)
EXTENDS ConcSpec, TLC
CONSTANTS Threads, Calls, Split
VARIABLES st, pc, cur, left, log

L == INSTANCE Lin WITH CInit <- Init
vars == <<st, pc, cur, left, log>>

QOp(n, a) == [f |-> "queue", n |-> n, a |-> a]
Alphabet  == { QOp("enq", <<1>>), QOp("enq", <<2>>), QOp("deq", <<>>), QOp("size", <<>>) }
ZeroRes   == [ok |-> FALSE, v |-> 0, s |-> <<>>, p |-> FALSE]
Ev(n, a, x, r) == [op |-> [n |-> n, a |-> a, x |-> x], res |-> r]

Init0 == /\ st = [k |-> "q", q |-> <<>>]
         /\ pc = [t \in Threads |-> "idle"] /\ cur = [t \in Threads |-> [op |-> QOp("size", <<>>), res |-> ZeroRes]]
         /\ left = [t \in Threads |-> Calls]
         /\ log = << Ev("obs", <<>>, QOp("newq", <<>>), [ok |-> TRUE, v |-> 0, s |-> <<>>, p |-> FALSE]) >>

Invoke(t) == /\ pc[t] = "idle" /\ left[t] > 0
             /\ \E op \in Alphabet :
                  /\ cur' = [cur EXCEPT ![t] = [op |-> op, res |-> ZeroRes]]
                  /\ log' = Append(log, Ev("inv", <<t>>, op, ZeroRes))
             /\ pc' = [pc EXCEPT ![t] = "called"] /\ left' = [left EXCEPT ![t] = @ - 1] /\ UNCHANGED st

Effect(t) == /\ pc[t] = "called"
             /\ \E o \in QOut(st, cur[t].op) :
                  /\ st' = o.st /\ cur' = [cur EXCEPT ![t].res = o.res]
             /\ pc' = [pc EXCEPT ![t] = "done"] /\ UNCHANGED <<left, log>>

\* the split dequeue: take the head now, remove "the head" later (whatever it is by then)
Half1(t) == /\ Split /\ pc[t] = "called" /\ cur[t].op.n = "deq" /\ st.q # <<>>
            /\ cur' = [cur EXCEPT ![t].res = [ok |-> TRUE, v |-> Head(st.q), s |-> <<>>, p |-> FALSE]]
            /\ pc' = [pc EXCEPT ![t] = "half"] /\ UNCHANGED <<st, left, log>>
Half2(t) == /\ pc[t] = "half"
            /\ st' = [st EXCEPT !.q = IF @ = <<>> THEN @ ELSE Tail(@)]
            /\ pc' = [pc EXCEPT ![t] = "done"] /\ UNCHANGED <<cur, left, log>>

Return(t) == /\ pc[t] = "done"
             /\ log' = Append(log, Ev("ret", <<t>>, cur[t].op, cur[t].res))
             /\ pc' = [pc EXCEPT ![t] = "idle"] /\ UNCHANGED <<st, cur, left>>

Next == \E t \in Threads : Invoke(t) \/ Effect(t) \/ Half1(t) \/ Half2(t) \/ Return(t)
Spec == Init0 /\ [][Next]_vars

RECURSIVE Accept(_, _)
Accept(SS, i) == IF i > Len(log) \/ SS = {} THEN SS
                 ELSE Accept({ o.st : o \in UNION { L!Out(s, log[i]) : s \in SS } }, i + 1)
\* every history the atomic model produces is accepted; at quiescence the final contents are part of it
Quiescent == \A t \in Threads : pc[t] = "idle"
Final == [op |-> [n |-> "obs", a |-> <<>>, x |-> QOp("drain", <<>>)], res |-> [ok |-> TRUE, v |-> 0, s |-> st.q, p |-> FALSE]]
Accepted == LET SS == Accept({L!L0}, 1) IN
            /\ SS # {}
            /\ Quiescent => UNION { L!Out(s, Final) : s \in SS } # {}
=============================================================================
