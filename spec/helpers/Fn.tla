---------------------------------- MODULE Fn ----------------------------------
(***************************************************************************)
(* The finite family of named callbacks used by the helper drivers         *)
(* (DESIGN.md 3.4).  Implemented twice: here and in harness/cmd/drive/     *)
(* helpers.go; events refer to them by name.  Arguments are non-negative   *)
(* wherever % or \div is used, so TLA+ and Go agree.                       *)
(***************************************************************************)
EXTENDS Integers, Sequences, FiniteSets

FnInt(name, x) == CASE name = "id"     -> x
                    [] name = "mod2"   -> x % 2
                    [] name = "div2"   -> x \div 2
                    [] name = "const0" -> 0
                    [] name = "neg"    -> 0 - x
                    [] name = "sq"     -> x * x
Pred(name, x)  == CASE name = "isOdd" -> x % 2 = 1
                    [] name = "gt1"   -> x > 1
                    [] name = "true"  -> TRUE
                    [] name = "false" -> FALSE
                    [] name = "eq2"   -> x = 2
Pred2(name, k, v) == CASE name = "kEven" -> k % 2 = 0
                       [] name = "vGt1"  -> v > 1
                       [] name = "kEqV"  -> k = v
                       [] name = "false" -> FALSE
Cmp(name, x, y) == CASE name = "lt"  -> x < y
                     [] name = "gt"  -> x > y
                     [] name = "key" -> (x \div 10) < (y \div 10)

\* ---- sequence vocabulary shared by the helper modules
Elems(q)   == { q[i] : i \in DOMAIN q }
In(q, x)   == \E i \in DOMAIN q : q[i] = x
Rev(q)     == [i \in 1..Len(q) |-> q[Len(q) + 1 - i]]
Sel(q, T(_)) == SelectSeq(q, T)
Count(q, x) == Cardinality({ i \in DOMAIN q : q[i] = x })
FirstIdx(q, x) == CHOOSE i \in DOMAIN q : q[i] = x /\ \A j \in 1..i - 1 : q[j] # x
RECURSIVE Concat(_)
Concat(qq) == IF qq = <<>> THEN <<>> ELSE Head(qq) \o Concat(Tail(qq))
\* first occurrence of each distinct value, in order
Uniq(q) == LET keep == { i \in DOMAIN q : \A j \in 1..i - 1 : q[j] # q[i] } IN
           [n \in 1..Cardinality(keep) |-> q[CHOOSE i \in keep : Cardinality({ j \in keep : j < i }) = n - 1]]
\* r is a subsequence of q
RECURSIVE IsSubseq(_, _)
IsSubseq(r, q) == IF r = <<>> THEN TRUE
                  ELSE IF q = <<>> THEN FALSE
                  ELSE IF Head(r) = Head(q) THEN IsSubseq(Tail(r), Tail(q))
                  ELSE IsSubseq(r, Tail(q))
\* same multiset
SameBag(a, b) == Len(a) = Len(b) /\ \A x \in Elems(a) \cup Elems(b) : Count(a, x) = Count(b, x)

\* nested arguments: [t |-> "v", v], [t |-> "s", s], [t |-> "l", l], [t |-> "x"] (malformed)
RECURSIVE WellFormed(_)
WellFormed(x) == CASE x.t = "v" -> TRUE
                   [] x.t = "s" -> TRUE
                   [] x.t = "l" -> \A i \in DOMAIN x.l : WellFormed(x.l[i])
                   [] OTHER     -> FALSE
RECURSIVE Flat(_)
Flat(x) == CASE x.t = "v" -> <<x.v>>
             [] x.t = "s" -> x.s
             [] x.t = "l" -> Concat([i \in DOMAIN x.l |-> Flat(x.l[i])])
             [] OTHER     -> <<>>
=============================================================================
