----------------------------- MODULE FrameTrace -----------------------------
EXTENDS Frame, Json, IOUtils, TLC
VARIABLES S, node, err, kf, taint
T == ndJsonDeserialize(IOEnv.TRACE)
TOut(s, e)   == OutR(s, e.op, e.res)
TKFOut(s, e) == {}
TT == INSTANCE TraceTree
Spec == TT!Spec
NoMismatch == TT!NoMismatch
=============================================================================
