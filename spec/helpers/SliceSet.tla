------------------------------ MODULE SliceSet ------------------------------
(***************************************************************************)
(* C11 - set-algebra slice helpers.  Allowed(op, res): is the recorded     *)
(* result one the property statement allows for this call?  Exact where    *)
(* the statement is exact, relational where it leaves freedom (Duplicate's *)
(* order; repeats in the ...By helpers).                                   *)
(***************************************************************************)
EXTENDS Fn

Others(l) == SubSeq(l, 2, Len(l))
InAll(ll, x) == \A i \in DOMAIN ll : In(ll[i], x)
ImgInAll(f, ll, x) == \A i \in DOMAIN ll : \E j \in DOMAIN ll[i] : FnInt(f, ll[i][j]) = FnInt(f, x)

\* first element of each distinct image
UniqBy(f, q) == LET keep == { i \in DOMAIN q : \A j \in 1..i - 1 : FnInt(f, q[j]) # FnInt(f, q[i]) } IN
                [n \in 1..Cardinality(keep) |-> q[CHOOSE i \in keep : Cardinality({ j \in keep : j < i }) = n - 1]]

\* "keep, in order, the elements of the first argument whose image qualifies": a subsequence of
\* the first argument, nothing that does not qualify, every qualifying VALUE present (repeats of a
\* value may or may not be kept: the statement only forbids repeats for the plain functions)
KeepQualifying(r, q, Q(_)) == /\ IsSubseq(r, q)
                              /\ \A i \in DOMAIN r : Q(r[i])
                              /\ \A i \in DOMAIN q : Q(q[i]) => In(r, q[i])

Allowed(op, res) ==
    CASE op.n = "Unique"   -> res.s = Uniq(op.l[1])
      [] op.n = "UniqueBy" -> res.s = UniqBy(op.f, op.l[1])
      \* Union of arbitrarily nested slices = Unique of their left-to-right flattening;
      \* malformed nesting yields an error rather than a silent empty result
      [] op.n = "Union"    -> IF WellFormed(op.x) THEN res.ok /\ ~res.h.e /\ res.s = Uniq(Flat(op.x))
                              ELSE ~res.ok /\ res.h.e
      [] op.n = "Intersection" -> res.s = Uniq(SelectSeq(op.l[1], LAMBDA x : InAll(Others(op.l), x)))
      [] op.n = "IntersectionBy" -> KeepQualifying(res.s, op.l[1], LAMBDA x : ImgInAll(op.f, Others(op.l), x))
      [] op.n = "Difference" -> res.s = Uniq(SelectSeq(op.l[1], LAMBDA x : ~In(op.l[2], x)))
      [] op.n = "Without"    -> res.s = Uniq(SelectSeq(op.l[1], LAMBDA x : ~In(op.l[2], x)))
      [] op.n = "DifferenceBy" -> KeepQualifying(res.s, op.l[1], LAMBDA x : ~ImgInAll(op.f, <<op.l[2]>>, x))
      \* exactly the values occurring more than once, each once (order unspecified)
      [] op.n = "Duplicate" -> /\ Elems(res.s) = { x \in Elems(op.l[1]) : Count(op.l[1], x) > 1 }
                               /\ Len(res.s) = Cardinality(Elems(res.s))
      \* each of them mapped to its first index (0-based); pairs sorted by value
      [] op.n = "DuplicateWithIndex" ->
            LET D == { x \in Elems(op.l[1]) : Count(op.l[1], x) > 1 } IN
            /\ Len(res.h.ll) = Cardinality(D)
            /\ { res.h.ll[i][1] : i \in DOMAIN res.h.ll } = D
            /\ \A i \in DOMAIN res.h.ll : res.h.ll[i][2] = FirstIdx(op.l[1], res.h.ll[i][1]) - 1
      [] OTHER -> FALSE
=============================================================================
