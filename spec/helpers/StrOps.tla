------------------------------- MODULE StrOps -------------------------------
(***************************************************************************)
(* C15 - string helpers.  Strings are sequences of byte codes; runes are   *)
(* decoded from UTF-8 (1- and 2-byte sequences: all the driver's alphabet  *)
(* contains).  Case mapping uses an explicit table for ASCII and the one   *)
(* non-ASCII letters of the alphabet (agreement with the full               *)
(* Unicode database is outside what a TLA+ table can state).               *)
(***************************************************************************)
EXTENDS Fn

RECURSIVE Runes(_)
Runes(b) == IF b = <<>> THEN <<>>
            ELSE IF b[1] >= 192 /\ b[1] < 224 /\ Len(b) >= 2 THEN << SubSeq(b, 1, 2) >> \o Runes(SubSeq(b, 3, Len(b)))
            ELSE << <<b[1]>> >> \o Runes(Tail(b))
\* byte offsets at which a rune starts (0-based), for a valid string
RuneStarts(b) == LET rs == Runes(b) IN { Len(Concat(SubSeq(rs, 1, i - 1))) : i \in DOMAIN rs }

\* the table: ASCII; o-umlaut; the digraph DZ-with-caron U+01C4 / U+01C5 / U+01C6, whose TITLE case
\* (U+01C5) differs from its UPPER case (U+01C4); Greek final sigma U+03C2, whose upper case U+03A3
\* lower-cases to the non-final sigma U+03C3
LowerR(r) == IF Len(r) = 1 /\ r[1] >= 65 /\ r[1] <= 90 THEN <<r[1] + 32>>
             ELSE IF r = <<195, 150>> THEN <<195, 182>>                  \* O-umlaut -> o-umlaut
             ELSE IF r \in {<<199, 132>>, <<199, 133>>} THEN <<199, 134>>
             ELSE IF r = <<206, 163>> THEN <<207, 131>> ELSE r
UpperR(r) == IF Len(r) = 1 /\ r[1] >= 97 /\ r[1] <= 122 THEN <<r[1] - 32>>
             ELSE IF r = <<195, 182>> THEN <<195, 150>>
             ELSE IF r \in {<<199, 133>>, <<199, 134>>} THEN <<199, 132>>
             ELSE IF r \in {<<207, 130>>, <<207, 131>>} THEN <<206, 163>> ELSE r
Lower(b) == Concat([i \in DOMAIN Runes(b) |-> LowerR(Runes(b)[i])])
Upper(b) == Concat([i \in DOMAIN Runes(b) |-> UpperR(Runes(b)[i])])
Capital(b) == Concat([i \in DOMAIN Runes(b) |-> IF i = 1 THEN UpperR(Runes(b)[i]) ELSE LowerR(Runes(b)[i])])

\* the first n bytes of the token repeated
RepPrefix(t, n) == [i \in 1..n |-> t[((i - 1) % Len(t)) + 1]]
HasPrefix(s, t) == Len(t) <= Len(s) /\ SubSeq(s, 1, Len(t)) = t
HasSuffix(s, t) == Len(t) <= Len(s) /\ SubSeq(s, Len(s) - Len(t) + 1, Len(s)) = t
Wrapped(s, t)   == Len(t) > 0 /\ Len(s) >= 2 * Len(t) /\ HasPrefix(s, t) /\ HasSuffix(s, t)

\* PHP-style substr: negative values count from the end; out-of-range selections give ""
SubstrDef(s, off, len) ==
    LET n  == Len(s)
        st == IF off >= 0 THEN off ELSE n + off
        en == IF len >= 0 THEN (IF st + len > n THEN n ELSE st + len) ELSE n + len
    IN  IF st < 0 \/ st > n \/ en < st THEN <<>> ELSE SubSeq(s, st + 1, en)

IsLetter(c) == (c >= 65 /\ c <= 90) \/ (c >= 97 /\ c <= 122)
IsUpper(c)  == c >= 65 /\ c <= 90
IsAlnum(c)  == IsLetter(c) \/ (c >= 48 /\ c <= 57)
LowC(c)     == IF IsUpper(c) THEN c + 32 ELSE c
AlnumLow(s) == LET a == SelectSeq(s, IsAlnum) IN [i \in DOMAIN a |-> LowC(a[i])]
\* positions (in the sequence of alphanumerics) that start a word of s, and those of the first word
AlnumIdx(s)   == { i \in DOMAIN s : IsAlnum(s[i]) }
WordStart(s, i) == IsAlnum(s[i]) /\ (i = 1 \/ ~IsAlnum(s[i - 1]))
RankOf(s, i)  == Cardinality({ j \in AlnumIdx(s) : j <= i })
FirstWordStart(s) == IF AlnumIdx(s) = {} THEN 0 ELSE CHOOSE i \in AlnumIdx(s) : \A j \in AlnumIdx(s) : i <= j
Swap(s, a, b) == [i \in DOMAIN s |-> IF s[i] = a THEN b ELSE s[i]]

\* Snake/Kebab of words of ASCII letters and digits: keep every letter and digit in order, no
\* other separator than their own, lower-case
DelimOK(r, s, d) == /\ AlnumLow(r) = AlnumLow(s)
                    /\ \A i \in DOMAIN r : (IsAlnum(r[i]) /\ ~IsUpper(r[i])) \/ r[i] = d

Allowed(op, res) ==
    LET s == op.l[1] IN
    CASE op.n = "Substr" -> res.s = SubstrDef(s, op.a[1], op.a[2])
      \* always two parts whose concatenation is the input; split after byte `index` unless that
      \* falls inside a multi-byte rune (the statement is silent there)
      [] op.n = "SplitAtIndex" -> LET p == res.h.ll  i == op.a[1] IN
                                  /\ Len(p) = 2 /\ p[1] \o p[2] = s
                                  /\ (i < 0 => p[1] = <<>>)
                                  /\ (i >= Len(s) - 1 => p[2] = <<>>)
                                  /\ (i >= 0 /\ i < Len(s) - 1 /\ (i + 1) \in RuneStarts(s) => Len(p[1]) = i + 1)
      \* unchanged when long enough, otherwise exactly the requested length with the input at the
      \* documented position surrounded by a prefix of the repeated pad token
      [] op.n = "PadLeft"  -> LET k == op.a[1] - Len(s) IN res.s = (IF k <= 0 THEN s ELSE RepPrefix(op.l[2], k) \o s)
      [] op.n = "PadRight" -> LET k == op.a[1] - Len(s) IN res.s = (IF k <= 0 THEN s ELSE s \o RepPrefix(op.l[2], k))
      [] op.n = "Pad"      -> LET k == op.a[1] - Len(s) IN
                              res.s = (IF k <= 0 THEN s ELSE RepPrefix(op.l[2], k \div 2) \o s \o RepPrefix(op.l[2], k - k \div 2))
      \* Unwrap(Wrap(s, t), t) = s for every s and t
      [] op.n = "Wrap"   -> res.s = op.l[2] \o s \o op.l[2] /\ res.h.ll = << s >>
      \* Unwrap leaves strings that are not wrapped by t unchanged
      [] op.n = "Unwrap" -> LET t == op.l[2] IN
                            res.s = (IF Wrapped(s, t) THEN SubSeq(s, Len(t) + 1, Len(s) - Len(t)) ELSE s)
      [] op.n = "WrapAllRune" -> res.s = Concat([i \in DOMAIN Runes(s) |-> op.l[2] \o Runes(s)[i] \o op.l[2]])
      [] op.n = "ReverseStr" -> res.s = Concat(Rev(Runes(s))) /\ res.h.ll = << s >>
      [] op.n = "ToLower"    -> res.s = Lower(s)
      [] op.n = "ToUpper"    -> res.s = Upper(s)
      [] op.n = "Capitalize" -> res.s = Capital(s)
      \* CamelCase: every letter and digit kept in order, no separator, lower-case apart from word initials
      [] op.n = "CamelCase" ->
            LET r == res.s IN
            /\ AlnumLow(r) = AlnumLow(s)
            /\ \A i \in DOMAIN r : IsAlnum(r[i])
            /\ \A i \in DOMAIN r : IsUpper(r[i]) =>
                 \E j \in AlnumIdx(s) : RankOf(s, j) = i /\ WordStart(s, j) /\ j # FirstWordStart(s)
            \* ... and the initials of the words after the first ARE upper-case (that is what camelCase means)
            /\ \A j \in AlnumIdx(s) : (WordStart(s, j) /\ j # FirstWordStart(s) /\ IsLetter(s[j])) => IsUpper(r[RankOf(s, j)])
      \* Snake/Kebab: idempotent and equal up to the delimiter
      [] op.n = "SnakeKebab" ->
            LET sn == res.s  kb == res.h.ll[1] IN
            /\ DelimOK(sn, s, 95) /\ DelimOK(kb, s, 45)
            /\ res.h.ll[2] = sn /\ res.h.ll[3] = kb
            /\ Swap(kb, 45, 95) = sn
      [] OTHER -> FALSE
=============================================================================
