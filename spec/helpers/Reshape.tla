------------------------------- MODULE Reshape -------------------------------
(***************************************************************************)
(* C12 - reshaping helpers conserve elements and order.                    *)
(***************************************************************************)
EXTENDS Fn

\* UTF-8 runes (1- and 2-byte sequences are all the driver's alphabet contains)
RECURSIVE Runes(_)
Runes(b) == IF b = <<>> THEN <<>>
            ELSE IF b[1] >= 192 /\ b[1] < 224 /\ Len(b) >= 2 THEN << SubSeq(b, 1, 2) >> \o Runes(SubSeq(b, 3, Len(b)))
            ELSE << <<b[1]>> >> \o Runes(Tail(b))
RevStr(b) == Concat(Rev(Runes(b)))

RECURSIVE Fold(_, _)
Fold(q, acc) == IF q = <<>> THEN acc ELSE Fold(Tail(q), (acc * 10 + Head(q)) % 100000)

Allowed(op, res) ==
    CASE op.n = "Chunk" ->       \* concatenates back; every chunk of length n except a shorter, non-empty last one
            LET c == res.h.ll  n == op.a[1] IN
            /\ Concat(c) = op.l[1]
            /\ \A i \in DOMAIN c : Len(c[i]) >= 1 /\ Len(c[i]) <= n /\ (i < Len(c) => Len(c[i]) = n)
      [] op.n = "Partition" -> res.h.ll = << Sel(op.l[1], LAMBDA x : Pred(op.f, x)), Sel(op.l[1], LAMBDA x : ~Pred(op.f, x)) >>
      [] op.n = "Filter"    -> res.s = Sel(op.l[1], LAMBDA x : Pred(op.f, x))
      [] op.n = "Reject"    -> res.s = Sel(op.l[1], LAMBDA x : ~Pred(op.f, x))
      [] op.n = "DropWhile" -> res.s = Sel(op.l[1], LAMBDA x : ~Pred(op.f, x))
      [] op.n = "DropRightWhile" -> res.s = Rev(Sel(op.l[1], LAMBDA x : ~Pred(op.f, x)))
      \* one group per image (sorted by key by the driver): the key, then its elements in order
      [] op.n = "GroupBy" ->
            LET g == res.h.ll  K == { FnInt(op.f, x) : x \in Elems(op.l[1]) } IN
            /\ { g[i][1] : i \in DOMAIN g } = K /\ Len(g) = Cardinality(K)
            /\ \A i \in DOMAIN g : Tail(g[i]) = Sel(op.l[1], LAMBDA x : FnInt(op.f, x) = g[i][1])
      \* transposition of a square matrix
      [] op.n \in {"Zip", "Unzip"} ->
            LET m == op.l  r == res.h.ll IN
            /\ Len(r) = Len(m)
            /\ \A i \in DOMAIN r : Len(r[i]) = Len(m) /\ \A j \in DOMAIN r[i] : r[i][j] = m[j][i]
      [] op.n = "Flatten" -> IF WellFormed(op.x) THEN res.ok /\ ~res.h.e /\ res.s = Flat(op.x)
                             ELSE ~res.ok /\ res.h.e
      [] op.n = "Merge"   -> res.s = Concat(op.l)
      \* Drop removes exactly |n| elements from the front (n > 0) or the back (n < 0)
      [] op.n = "Drop"    -> LET n == op.a[1]  q == op.l[1]  k == IF n < 0 THEN 0 - n ELSE n IN
                             res.s = IF k >= Len(q) THEN <<>>
                                     ELSE IF n > 0 THEN SubSeq(q, n + 1, Len(q)) ELSE SubSeq(q, 1, Len(q) - k)
      [] op.n = "Reverse" -> res.s = Rev(op.l[1]) /\ res.h.ll = << op.l[1] >>          \* and an involution
      [] op.n = "ReverseStr" -> res.s = RevStr(op.l[1]) /\ res.h.ll = << op.l[1] >>
      [] op.n = "Shuffle" -> SameBag(res.s, op.l[1])
      \* the iterators visit every element exactly once, in index (ForEachRight: reverse) order
      [] op.n = "Map"     -> res.h.log = op.l[1] /\ res.s = [i \in DOMAIN op.l[1] |-> FnInt(op.f, op.l[1][i])]
      [] op.n = "ForEach" -> res.h.log = op.l[1]
      [] op.n = "ForEachRight" -> res.h.log = Rev(op.l[1])
      [] op.n = "Reduce"  -> res.h.log = op.l[1] /\ res.v = Fold(op.l[1], op.a[1])
      [] OTHER -> FALSE
=============================================================================
