---------------------------- MODULE SearchTrace ----------------------------
(* star-shaped recording of independent helper calls: res \in Allowed(fn, args) *)
EXTENDS Search, Json, IOUtils, TLC
VARIABLES S, node, err, kf, taint
T == ndJsonDeserialize(IOEnv.TRACE)
S0 == 0
TOut(s, e)   == IF ~e.res.p /\ Allowed(e.op, e.res) THEN { [st |-> s, res |-> e.res] } ELSE {}
TKFOut(s, e) == {}
ProjOK(s, p) == TRUE
Trig(SS, e)  == {}
TT == INSTANCE TraceTree
Spec == TT!Spec
NoMismatch == TT!NoMismatch
=============================================================================
