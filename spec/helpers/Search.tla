------------------------------- MODULE Search -------------------------------
(***************************************************************************)
(* C13 - search, selection, aggregate and numeric helpers agree with their *)
(* definitions.  Indices in events are 0-based as in Go.                   *)
(***************************************************************************)
EXTENDS Fn

AbsI(x) == IF x < 0 THEN 0 - x ELSE x
Wrap8(x) == IF x > 127 THEN x - 256 ELSE IF x < -128 THEN x + 256 ELSE x
RECURSIVE SumSeq(_)
SumSeq(q) == IF q = <<>> THEN 0 ELSE Head(q) + SumSeq(Tail(q))
\* Go integer division truncates toward zero
QuoT(a, b) == IF a >= 0 THEN a \div b ELSE 0 - ((0 - a) \div b)
Matching(q, P(_)) == { i \in DOMAIN q : P(q[i]) }
MinIdx(I) == CHOOSE i \in I : \A j \in I : i <= j
MaxIdx(I) == CHOOSE i \in I : \A j \in I : i >= j

\* maps travel as <<k1, v1, k2, v2, ...>>
MKeys(m)   == { m[2 * i - 1] : i \in 1..(Len(m) \div 2) }
MGet(m, k) == m[2 * (CHOOSE i \in 1..(Len(m) \div 2) : m[2 * i - 1] = k)]

\* the first element whose image is extremal (better(a, b): a strictly better than b)
FirstExtremal(q, f, better(_, _)) ==
    LET I == { i \in DOMAIN q : \A j \in DOMAIN q : ~better(FnInt(f, q[j]), FnInt(f, q[i])) } IN q[MinIdx(I)]

\* Range: the maximal arithmetic progression that starts at start, moves by |step| toward end and
\* stops before reaching it (ascending when end > 0, descending otherwise)
Progression(start, step, end) ==
    LET st == AbsI(step) IN
    IF end > 0 THEN (IF start >= end THEN <<>> ELSE [i \in 1..((end - start - 1) \div st + 1) |-> start + (i - 1) * st])
    ELSE (IF start <= end THEN <<>> ELSE [i \in 1..((start - end - 1) \div st + 1) |-> start - (i - 1) * st])
RangeArgs(a) == CASE Len(a) = 1 -> <<0, 1, a[1]>> [] Len(a) = 2 -> <<a[1], 1, a[2]>> [] Len(a) = 3 -> a
\* invalid argument combinations (three-argument form) yield an error
RangeInvalid(a) == \/ Len(a) > 3
                   \/ Len(a) = 3 /\ (a[2] = 0 \/ (a[1] > a[3] /\ a[3] > 0) \/ (a[2] < 0 /\ a[3] > a[1]))
RangeOK(a, res, rev) ==
    IF RangeInvalid(a) THEN ~res.ok /\ res.h.e
    ELSE LET t == RangeArgs(a)  p == Progression(t[1], t[2], t[3]) IN
         res.ok /\ ~res.h.e /\ res.s = (IF rev THEN Rev(p) ELSE p)

Allowed(op, res) ==
    LET q == IF "l" \in DOMAIN op THEN op.l[1] ELSE <<>> IN
    CASE op.n = "IndexOf"     -> LET I == { i \in DOMAIN q : q[i] = op.a[1] } IN res.v = (IF I = {} THEN -1 ELSE MinIdx(I) - 1)
      [] op.n = "LastIndexOf" -> LET I == { i \in DOMAIN q : q[i] = op.a[1] } IN res.v = (IF I = {} THEN -1 ELSE MaxIdx(I) - 1)
      [] op.n = "FindIndex"   -> LET I == Matching(q, LAMBDA x : Pred(op.f, x)) IN res.v = (IF I = {} THEN -1 ELSE MinIdx(I) - 1)
      [] op.n = "FindLastIndex" -> LET I == Matching(q, LAMBDA x : Pred(op.f, x)) IN res.v = (IF I = {} THEN -1 ELSE MaxIdx(I) - 1)
      \* exactly the matching index/value pairs (sorted by index by the driver)
      [] op.n = "FindAll" -> LET I == Matching(q, LAMBDA x : Pred(op.f, x)) IN
                             /\ Len(res.h.ll) = Cardinality(I)
                             /\ { res.h.ll[i][1] + 1 : i \in DOMAIN res.h.ll } = I
                             /\ \A i \in DOMAIN res.h.ll : res.h.ll[i][2] = q[res.h.ll[i][1] + 1]
      [] op.n = "Contains" -> res.ok = In(q, op.a[1])
      [] op.n = "Some"     -> res.ok = \E i \in DOMAIN q : Pred(op.f, q[i])
      [] op.n = "Every"    -> res.ok = \A i \in DOMAIN q : Pred(op.f, q[i])
      \* an element of the input that is extremal; the zero value for an empty input; never a panic
      [] op.n \in {"FindMin", "Min"} -> IF q = <<>> THEN res.v = 0 ELSE In(q, res.v) /\ \A i \in DOMAIN q : res.v <= q[i]
      [] op.n \in {"FindMax", "Max"} -> IF q = <<>> THEN res.v = 0 ELSE In(q, res.v) /\ \A i \in DOMAIN q : res.v >= q[i]
      [] op.n = "FindMinBy" -> IF q = <<>> THEN res.v = 0 ELSE res.v = FirstExtremal(q, op.f, LAMBDA a, b : a < b)
      [] op.n = "FindMaxBy" -> IF q = <<>> THEN res.v = 0 ELSE res.v = FirstExtremal(q, op.f, LAMBDA a, b : a > b)
      \* ...ByKey over a slice of maps: extremal among the values stored under the key; an error is
      \* acceptable only when some map (or every map, or the slice) lacks the key; zero value for empty
      [] op.n \in {"FindMinByKey", "FindMaxByKey"} ->
            LET ms == IF "l" \in DOMAIN op THEN op.l ELSE <<>>
                k  == op.a[1]
                V  == { MGet(ms[i], k) : i \in { i \in DOMAIN ms : k \in MKeys(ms[i]) } }
            IN  IF ms = <<>> THEN res.v = 0
                ELSE IF res.ok THEN /\ V # {} /\ res.v \in V
                                    /\ \A x \in V : IF op.n = "FindMinByKey" THEN res.v <= x ELSE res.v >= x
                ELSE res.v = 0 /\ \E i \in DOMAIN ms : k \notin MKeys(ms[i])
      \* s[i] for 0 <= i < len, s[len+i] for -len <= i < 0, an error - never a panic - otherwise
      [] op.n = "Nth" -> LET i == op.a[1]  n == Len(q) IN
                         IF i >= 0 /\ i < n THEN res.ok /\ res.v = q[i + 1]
                         ELSE IF i < 0 /\ i >= 0 - n THEN res.ok /\ res.v = q[n + i + 1]
                         ELSE ~res.ok /\ res.v = 0
      [] op.n = "Sum"   -> res.v = SumSeq(q)
      [] op.n = "SumBy" -> res.v = SumSeq([i \in DOMAIN q |-> FnInt(op.f, q[i])])
      [] op.n = "Mean"  -> res.v = QuoT(SumSeq(q), Len(q))
      \* elements sign * 2^53 + q[i] with every q[i] of that sign (or 0); recorded is the result minus the base
      \* (Sum: minus Len(q) times the base) - by the definitions that is the result on the offsets alone
      [] op.n = "MeanBig" -> res.v = QuoT(SumSeq(q), Len(q))
      [] op.n = "SumBig"  -> res.v = SumSeq(q)
      [] op.n = "MinBig"  -> res.v \in { q[i] : i \in DOMAIN q } /\ \A i \in DOMAIN q : res.v <= q[i]
      [] op.n = "MaxBig"  -> res.v \in { q[i] : i \in DOMAIN q } /\ \A i \in DOMAIN q : res.v >= q[i]
      \* defining inequalities, in int8 (negation wraps at the type bound as Go's does)
      [] op.n = "Abs8"   -> res.v = (IF op.a[1] < 0 THEN Wrap8(0 - op.a[1]) ELSE op.a[1])
      [] op.n = "Clamp8" -> LET x == op.a[1]  lo == op.a[2]  hi == op.a[3] IN
                            /\ res.v \in {x, lo, hi}
                            /\ lo <= hi => (res.v >= lo /\ res.v <= hi /\ (x >= lo /\ x <= hi => res.v = x))
      [] op.n = "InRange8" -> res.ok = (op.a[1] >= op.a[2] /\ op.a[1] <= op.a[3])
      [] op.n = "Compare" -> res.v = (IF Cmp(op.f, op.a[1], op.a[2]) THEN 1 ELSE IF Cmp(op.f, op.a[2], op.a[1]) THEN -1 ELSE 0)
      [] op.n = "Less"    -> res.ok = (op.a[1] < op.a[2])
      [] op.n = "Equal"   -> res.ok = (op.a[1] = op.a[2])
      [] op.n = "Enclose" -> res.ok = (AbsI(op.a[3]) >= op.a[1] /\ AbsI(op.a[3]) <= op.a[2])
      \* (RangeU8 / RangeI8: the same calls on uint8 / int8 arguments whose progression stays inside the type)
      [] op.n \in {"Range", "RangeU8", "RangeI8"} -> RangeOK(op.a, res, FALSE)
      [] op.n \in {"RangeRight", "RangeRightU8"}  -> RangeOK(op.a, res, TRUE)
      [] OTHER -> FALSE
=============================================================================
