------------------------------ MODULE FrameMC ------------------------------
(***************************************************************************)
(* Non-vacuity of the frame conditions (DESIGN 7/C16): an abstract helper  *)
(* that appends into the spare capacity of its first argument - exactly    *)
(* the design Merge had - violates ArgsKept, a helper that copies does     *)
(* not, and a view followed by an in-place edit is accepted.               *)
(***************************************************************************)
EXTENDS Frame, TLC
VARIABLES s, bad
vars == <<s, bad>>
Ev(f, ip, ll, al) == [op |-> [n |-> "call", f |-> f, a |-> <<ip>>], res |-> [p |-> FALSE, s |-> al, h |-> [ll |-> ll]]]
Init == s = [buf |-> << <<1, 2, -9, -9>>, <<3>> >>, len |-> <<2, 1>>, rs |-> <<>>] /\ bad = FALSE
\* candidate events: a copying merge, an appending merge (writes the sentinels), a view (Drop),
\* an in-place reverse, an undeclared in-place edit
Cands == { Ev("Merge",   0, s.buf \o [j \in DOMAIN s.rs |-> s.rs[j].snap] \o << <<1, 2, 3>> >>, <<0>>),
           Ev("MergeApp", 0, << <<1, 2, 3, -9>>, <<3>> >> \o [j \in DOMAIN s.rs |-> s.rs[j].snap] \o << <<1, 2, 3>> >>, <<1>>),
           Ev("Drop",    0, s.buf \o [j \in DOMAIN s.rs |-> s.rs[j].snap] \o << <<s.buf[1][2]>> >>, <<1>>),
           Ev("Reverse", 1, << <<s.buf[1][2], s.buf[1][1], -9, -9>>, <<3>> >>
                            \o [j \in DOMAIN s.rs |-> IF s.rs[j].alias = 1 THEN <<s.buf[1][1]>> ELSE s.rs[j].snap]
                            \o << <<s.buf[1][2], s.buf[1][1]>> >>, <<1>>),
           Ev("Filter",  0, << <<s.buf[1][2], s.buf[1][1], -9, -9>>, <<3>> >> \o [j \in DOMAIN s.rs |-> s.rs[j].snap] \o << <<>> >>, <<0>>) }
Next == /\ Len(s.rs) < 3 /\ ~bad
        /\ \E e \in Cands :
             IF CallOK(s, e.op, e.res) THEN s' = NextState(s, e.op, e.res) /\ bad' = FALSE
             ELSE s' = s /\ bad' = (e.op.f \in {"Merge", "Drop", "Reverse"})     \* a legitimate helper was rejected
Spec == Init /\ [][Next]_vars
LegitAccepted == ~bad
\* the appending merge and the undeclared edit are never accepted
AppendRejected == \A e \in Cands : e.op.f \in {"MergeApp", "Filter"} => ~CallOK(s, e.op, e.res)
SentinelsKept == \A i \in 3..4 : s.buf[1][i] = -9
=============================================================================
