------------------------------- MODULE MapOps -------------------------------
(***************************************************************************)
(* C14 - map helpers select, transform and invert entries exactly.         *)
(* Input maps travel as <<k1, v1, k2, v2, ...>>, result maps as a sequence *)
(* of <<k, v>> pairs sorted by key.  Results whose order or choice Go's    *)
(* map iteration leaves open are judged by their defining relation.        *)
(***************************************************************************)
EXTENDS Fn

MKeys(m)   == { m[2 * i - 1] : i \in 1..(Len(m) \div 2) }
MGet(m, k) == m[2 * (CHOOSE i \in 1..(Len(m) \div 2) : m[2 * i - 1] = k)]
MVals(m)   == { MGet(m, k) : k \in MKeys(m) }
\* result map (pairs) as a function, and well-formedness (keys distinct)
RKeys(r)   == { r[i][1] : i \in DOMAIN r }
RGet(r, k) == r[CHOOSE i \in DOMAIN r : r[i][1] = k][2]
RMapOK(r)  == Cardinality(RKeys(r)) = Len(r)
\* r is exactly the sub-map of m on the keys K
IsSubmap(r, m, K) == RMapOK(r) /\ RKeys(r) = K /\ \A k \in K : RGet(r, k) = MGet(m, k)

KeyFn(f, k, v) == CASE f = "kPlusV" -> k + v [] f = "kMod2" -> k % 2 [] OTHER -> k
PredM(f, m)    == CASE f = "hasKey1" -> 1 \in MKeys(m) [] f = "sizeGt1" -> Cardinality(MKeys(m)) > 1
Qual(m, f)     == \E k \in MKeys(m) : Pred(f, MGet(m, k))
\* last wins
RECURSIVE PairUp(_, _, _)
PairUp(ks, vs, acc) == IF ks = <<>> THEN acc
                       ELSE PairUp(Tail(ks), Tail(vs), [x \in DOMAIN acc \cup {Head(ks)} |-> IF x = Head(ks) THEN Head(vs) ELSE acc[x]])

Allowed(op, res) ==
    LET m  == IF "l" \in DOMAIN op THEN op.l[1] ELSE <<>>
        r  == res.h.ll
    IN
    CASE op.n = "Keys"   -> Len(res.s) = Cardinality(MKeys(m)) /\ Elems(res.s) = MKeys(m)          \* every key once
      [] op.n = "Values" -> SameBag(res.s, [i \in 1..(Len(m) \div 2) |-> m[2 * i]])               \* every value once
      \* Pick/PickBy/FilterMap: exactly the qualifying entries; Omit/OmitBy: exactly the others
      [] op.n = "Pick"   -> IF op.l[2] = <<>> THEN ~res.ok /\ res.h.e /\ r = <<>>
                            ELSE res.ok /\ ~res.h.e /\ IsSubmap(r, m, MKeys(m) \cap Elems(op.l[2]))
      [] op.n = "Omit"   -> IsSubmap(r, m, MKeys(m) \ Elems(op.l[2]))
      [] op.n = "PickBy" -> IsSubmap(r, m, { k \in MKeys(m) : Pred2(op.f, k, MGet(m, k)) })
      [] op.n = "OmitBy" -> IsSubmap(r, m, { k \in MKeys(m) : ~Pred2(op.f, k, MGet(m, k)) })
      [] op.n = "FilterMap" -> IsSubmap(r, m, { k \in MKeys(m) : Pred(op.f, MGet(m, k)) })
      \* the association between keys and values is preserved under the transformation
      [] op.n = "MapValues" -> RMapOK(r) /\ RKeys(r) = MKeys(m) /\ \A k \in MKeys(m) : RGet(r, k) = FnInt(op.f, MGet(m, k))
      [] op.n = "MapKeys"   -> /\ RMapOK(r) /\ RKeys(r) = { KeyFn(op.f, k, MGet(m, k)) : k \in MKeys(m) }
                               /\ \A k2 \in RKeys(r) : \E k \in MKeys(m) : KeyFn(op.f, k, MGet(m, k)) = k2 /\ RGet(r, k2) = MGet(m, k)
      \* every value mapped back to a key that held it
      [] op.n = "Invert"    -> /\ RMapOK(r) /\ RKeys(r) = MVals(m)
                               /\ \A v \in RKeys(r) : RGet(r, v) \in MKeys(m) /\ MGet(m, RGet(r, v)) = v
      \* Find: the qualifying entry with the smallest key; FindKey/FindByKey: some qualifying entry
      [] op.n = "Find" -> LET Q == { k \in MKeys(m) : Pred(op.f, MGet(m, k)) } IN
                          IF Q = {} THEN r = <<>>
                          ELSE LET k == CHOOSE k \in Q : \A j \in Q : k <= j IN r = << <<k, MGet(m, k)>> >>
      [] op.n = "FindKey" -> LET Q == { k \in MKeys(m) : Pred(op.f, MGet(m, k)) } IN
                             IF Q = {} THEN res.v = 0 ELSE res.v \in Q
      [] op.n = "FindByKey" -> LET Q == { k \in MKeys(m) : Pred(op.f, k) } IN
                               IF Q = {} THEN r = <<>> ELSE Len(r) = 1 /\ r[1][1] \in Q /\ r[1][2] = MGet(m, r[1][1])
      \* the value under the key from each map that has it, in order
      [] op.n = "Pluck" -> LET ms == op.l  k == op.a[1]
                               I == { i \in DOMAIN ms : k \in MKeys(ms[i]) } IN
                           /\ Len(res.s) = Cardinality(I)
                           /\ \A n \in DOMAIN res.s :
                                res.s[n] = MGet(ms[CHOOSE i \in I : Cardinality({ j \in I : j < i }) = n - 1], k)
      \* one entry per distinct value
      [] op.n = "MapUnique" -> /\ RMapOK(r) /\ RKeys(r) \subseteq MKeys(m)
                               /\ \A k \in RKeys(r) : RGet(r, k) = MGet(m, k)
                               /\ { RGet(r, k) : k \in RKeys(r) } = MVals(m)
                               /\ Len(r) = Cardinality(MVals(m))
      [] op.n = "MapEvery" -> res.ok = \A k \in MKeys(m) : Pred(op.f, MGet(m, k))
      [] op.n = "MapSome"  -> res.ok = \E k \in MKeys(m) : Pred(op.f, MGet(m, k))
      [] op.n = "MapContains" -> res.ok = (op.a[1] \in MVals(m))
      [] op.n = "MapCollection" -> SameBag(res.s, [i \in 1..(Len(m) \div 2) |-> FnInt(op.f, m[2 * i])])
      \* pairs positions, last wins; unequal lengths are rejected (the documented panic)
      [] op.n = "SliceToMap" -> LET f == PairUp(op.l[1], op.l[2], [x \in {} |-> 0]) IN
                                RMapOK(r) /\ RKeys(r) = DOMAIN f /\ \A k \in DOMAIN f : RGet(r, k) = f[k]
      \* keep a map exactly when one of its values qualifies, preserving order (each map once)
      [] op.n = "FilterMapCollection" -> r = SelectSeq(op.l, LAMBDA x : Qual(x, op.f))
      [] op.n = "Filter2DMapCollection" -> r = SelectSeq(op.l, LAMBDA x : PredM(op.f, x))
      \* every non-empty map routed by the predicate, both sides in order (separator <<-1>>)
      [] op.n = "PartitionMap" -> LET ne == SelectSeq(op.l, LAMBDA x : x # <<>>) IN
                                  r = SelectSeq(ne, LAMBDA x : PredM(op.f, x)) \o << <<-1>> >> \o SelectSeq(ne, LAMBDA x : ~PredM(op.f, x))
      [] OTHER -> FALSE

\* SliceToMap with unequal lengths: the documented rejection is a panic
PanicAllowed(op) == op.n = "SliceToMap" /\ Len(op.l[1]) # Len(op.l[2])
=============================================================================
