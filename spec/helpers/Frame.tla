-------------------------------- MODULE Frame --------------------------------
(***************************************************************************)
(* C16 - helpers do not disturb their arguments or each other's results.   *)
(* State machine over buffers (DESIGN.md 7/C16):                           *)
(*   buf  : <<A, B>>   the argument backing arrays INCLUDING spare capacity *)
(*                     (the driver fills it with sentinels), or a map as   *)
(*                     sorted k,v pairs                                    *)
(*   len  : <<lenA, lenB>>  length of the argument view onto each buffer   *)
(*   rs   : earlier results, each [snap, alias]: value as first returned   *)
(*          and the buffer it is a window onto (0 = fresh storage)         *)
(* A "call" event carries the in-place argument index declared by the      *)
(* helper's contract (0 for every helper that returns a new value), the    *)
(* buffers after the call, every earlier result re-read after the call,    *)
(* and the new results with their alias info computed by pointer           *)
(* arithmetic in the driver.                                               *)
(***************************************************************************)
EXTENDS Integers, Sequences, FiniteSets

S0 == [buf |-> <<>>, len |-> <<>>, rs |-> <<>>]
O(st, res) == [st |-> st, res |-> res]

\* the only helpers whose contract is in-place, and the argument they may touch
InPlace == {"Reverse", "Reject", "Omit", "OmitBy", "heap.FromSlice", "heap.Sort"}
\* helpers whose result is by nature a window onto (or the very object of) an argument rather than "a
\* new slice, map or string": the in-place ones return their argument, Drop and Chunk return
\* sub-slices, the map-collection filters hand back the caller's own maps.  Every other helper
\* returns fresh storage: a result that shares storage with an argument would be altered by a
\* later in-place helper on that argument.
MayAlias == InPlace \cup {"Drop", "Chunk", "FilterMapCollection", "PartitionMap"}

ArgsKept(s, after, ip) ==
    \A b \in DOMAIN s.buf :
      IF ip = b
        THEN \* only that argument's first len elements may change: the capacity region is untouched
             \A i \in (s.len[b] + 1)..Len(s.buf[b]) : i <= Len(after[b]) /\ after[b][i] = s.buf[b][i]
        ELSE after[b] = s.buf[b]

ResultsKept(s, rr, ip) ==
    \A j \in DOMAIN s.rs : rr[j] = s.rs[j].snap \/ (ip # 0 /\ s.rs[j].alias = ip)

\* res.s = <<alias_1, .., alias_k>> for the k new results; res.h.ll = after buffers, then the
\* re-read earlier results, then the k new results
CallOK(s, op, res) ==
    LET ip    == op.a[1]
        nb    == Len(s.buf)
        nr    == Len(s.rs)
        after == SubSeq(res.h.ll, 1, nb)
        rr    == SubSeq(res.h.ll, nb + 1, nb + nr)
    IN  /\ ~res.p
        /\ Len(res.h.ll) = nb + nr + Len(res.s)
        /\ (ip # 0 => op.f \in InPlace)                  \* the driver may only declare contract in-place helpers
        /\ (op.f \notin MayAlias => \A j \in 1..Len(res.s) : res.s[j] = 0)
        /\ ArgsKept(s, after, ip)
        /\ ResultsKept(s, rr, ip)

NextState(s, op, res) ==
    LET nb == Len(s.buf)  nr == Len(s.rs)
        new == [j \in 1..Len(res.s) |-> [snap |-> res.h.ll[nb + nr + j], alias |-> res.s[j]]]
    IN  [s EXCEPT !.buf = SubSeq(res.h.ll, 1, nb),
                  !.rs  = [j \in 1..nr |-> [snap |-> res.h.ll[nb + j], alias |-> s.rs[j].alias]] \o new]

OutR(s, op, res) ==
    CASE op.n = "bufs" -> { O([buf |-> op.l, len |-> op.a, rs |-> <<>>], res) }
      [] op.n = "call" -> IF CallOK(s, op, res) THEN { O(NextState(s, op, res), res) } ELSE {}
      [] OTHER -> {}

ProjOK(s, p) == TRUE
Trig(S, e)   == {}
=============================================================================
