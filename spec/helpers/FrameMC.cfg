SPECIFICATION Spec
INVARIANTS LegitAccepted AppendRejected SentinelsKept
CHECK_DEADLOCK FALSE
