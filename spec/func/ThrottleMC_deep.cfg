SPECIFICATION Spec
CONSTANTS
  Per = 4
  Threads = {2, 3}
  Jumps = {2, 4, 5}
  MaxEv = 9
  Trail = TRUE
  Early = FALSE
INVARIANTS Spacing Backed NoTrailingKept CancelStops Ready
CHECK_DEADLOCK FALSE
