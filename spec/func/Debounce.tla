------------------------------- MODULE Debounce -------------------------------
(***************************************************************************)
(* C20, first half - Delay and NewDebounce over a VIRTUAL clock.           *)
(*                                                                         *)
(* State: now, wait, pending (a run is scheduled), last (instant of the    *)
(* most recent call), burst (ids of the functions passed since the last    *)
(* run or cancel), fired (how many runs so far).  A recorded "tick" lists  *)
(* the runs that happened while the clock advanced as <<id, instant, ...>>.*)
(*                                                                         *)
(* The scheduled function never runs sooner than `wait` after the most     *)
(* recent call, at most once per burst, not at all after cancel, and it    *)
(* has run once the clock has passed last + wait.  Exactly at last + wait  *)
(* either answer is accepted.  Which of the burst's functions runs is not  *)
(* pinned by the statement: any id of the current burst is accepted.       *)
(***************************************************************************)
EXTENDS Integers, Sequences, FiniteSets

S0 == [now |-> 0, wait |-> 0, pending |-> FALSE, last |-> 0, burst |-> {}, fired |-> 0]

R(s)       == [ok |-> TRUE, v |-> 0, s |-> s, p |-> FALSE]
O(st, res) == [st |-> st, res |-> res]

Arm(s, id) == [s EXCEPT !.pending = TRUE, !.last = s.now,
                        !.burst = IF s.pending THEN @ \cup {id} ELSE {id}]

TickOut(s, d) ==
    LET s1  == [s EXCEPT !.now = @ + d]
        due == s.last + s.wait
        run == { O([s1 EXCEPT !.pending = FALSE, !.burst = {}, !.fired = @ + 1], R(<<id, t>>)) :
                   id \in s.burst, t \in due..s1.now }
    IN  IF ~s.pending \/ s1.now < due THEN { O(s1, R(<<>>)) }
        ELSE IF s1.now = due THEN run \cup { O(s1, R(<<>>)) }
        ELSE run

Out(s, op) ==
    CASE op.n = "newd"  -> { O([S0 EXCEPT !.wait = op.a[1]], R(<<>>)) }
      \* Delay(wait, f) = a debouncer that is called exactly once, at construction
      [] op.n = "delay" -> { O(Arm([S0 EXCEPT !.wait = op.a[1]], op.a[2]), R(<<>>)) }
      [] op.n = "call"  -> { O(Arm(s, op.a[1]), R(<<>>)) }
      [] op.n \in {"cancel", "stop"} -> { O([s EXCEPT !.pending = FALSE, !.burst = {}], R(<<>>)) }
      [] op.n = "tick"  -> TickOut(s, op.a[1])
      [] OTHER -> {}

ProjOK(s, p) == p.fired = s.fired

KFOut(s, op) == {}
Trig(S, e)   == {}
=============================================================================
