------------------------------- MODULE Debounce -------------------------------
(***************************************************************************)
(* C20, first half - Delay and NewDebounce over a VIRTUAL clock.           *)
(*                                                                         *)
(* State: now, wait, pending (a run is scheduled), last (instant of the    *)
(* most recent call), burst (ids of the functions passed since the last    *)
(* run or cancel), fired (how many runs so far).  A recorded "tick" lists  *)
(* the runs that happened while the clock advanced as <<id, instant, ...>>.*)
(*                                                                         *)
(* The scheduled function never runs sooner than `wait` after the most     *)
(* recent call, at most once per burst, not at all after cancel, and it    *)
(* has run once the clock has passed last + wait.  Exactly at last + wait  *)
(* either answer is accepted.  Which of the burst's functions runs is not  *)
(* pinned by the statement: any id of the current burst is accepted.       *)
(***************************************************************************)
EXTENDS Integers, Sequences, FiniteSets

S0 == [now |-> 0, wait |-> 0, pending |-> FALSE, last |-> 0, burst |-> {}, fired |-> 0]

R(s)       == [ok |-> TRUE, v |-> 0, s |-> s, p |-> FALSE]
O(st, res) == [st |-> st, res |-> res]

Arm(s, id) == [s EXCEPT !.pending = TRUE, !.last = s.now,
                        !.burst = IF s.pending THEN @ \cup {id} ELSE {id}]

\* A function whose id is >= 100 calls the debounced function again while it runs (with id + 1000):
\* "a new call arrives while the callback is still running".  A tick therefore may contain several
\* runs; they are replayed one by one from the recorded list <<id1, t1, id2, t2, ...>>.
ReArms(id) == id >= 100 /\ id < 1000
\* A function whose id is in 200..299 is slow as well: having called the debounced function again it
\* keeps running for wait + 1 units (it moves the clock itself), so the wait of the new call runs out
\* WHILE this function is still executing - the new function has to run all the same.
Slow(id) == id >= 200 /\ id < 300
AfterRun(s, id, t) == LET s1 == [s EXCEPT !.pending = FALSE, !.burst = {}, !.fired = @ + 1]
                          s2 == IF ReArms(id) THEN [s1 EXCEPT !.pending = TRUE, !.last = t, !.burst = {id + 1000}] ELSE s1 IN
                      IF Slow(id) /\ t + s.wait + 1 > s2.now THEN [s2 EXCEPT !.now = t + s.wait + 1] ELSE s2
RECURSIVE Runs(_, _, _, _)
\* s: state with s.now = the END of the tick; lo: runs so far happened up to lo; q: the recorded runs left
Runs(s, lo, q, i) ==
    IF i > Len(q)
      THEN \* nothing more ran: fine unless a run is overdue (strictly before the end of the tick)
           IF s.pending /\ s.last + s.wait < s.now THEN {} ELSE { s }
      ELSE LET id == q[i]  t == q[i + 1] IN
           IF s.pending /\ id \in s.burst /\ t >= s.last + s.wait /\ t >= lo /\ t <= s.now
             THEN Runs(AfterRun(s, id, t), t, q, i + 2) ELSE {}
TickOutR(s, d, res) ==
    IF res.p \/ ~res.ok \/ Len(res.s) % 2 # 0 THEN {}
    ELSE { O(st, res) : st \in Runs([s EXCEPT !.now = @ + d], s.now, res.s, 1) }
\* the enumerating form (model checker, behaviours without re-arming functions)
TickOut(s, d) ==
    LET s1  == [s EXCEPT !.now = @ + d]
        due == s.last + s.wait
        run == { O([s1 EXCEPT !.pending = FALSE, !.burst = {}, !.fired = @ + 1], R(<<id, t>>)) :
                   id \in s.burst, t \in due..s1.now }
    IN  IF ~s.pending \/ s1.now < due THEN { O(s1, R(<<>>)) }
        ELSE IF s1.now = due THEN run \cup { O(s1, R(<<>>)) }
        ELSE run

Out(s, op) ==
    CASE op.n = "newd"  -> { O([S0 EXCEPT !.wait = op.a[1]], R(<<>>)) }
      \* Delay(wait, f) = a debouncer that is called exactly once, at construction
      [] op.n = "delay" -> { O(Arm([S0 EXCEPT !.wait = op.a[1]], op.a[2]), R(<<>>)) }
      [] op.n = "call"  -> { O(Arm(s, op.a[1]), R(<<>>)) }
      [] op.n \in {"cancel", "stop"} -> { O([s EXCEPT !.pending = FALSE, !.burst = {}], R(<<>>)) }
      [] op.n = "tick"  -> TickOut(s, op.a[1])
      [] OTHER -> {}

\* with the recorded result at hand (trace validation): ticks are judged by replaying their runs
OutR(s, op, res) == IF op.n = "tick" THEN TickOutR(s, op.a[1], res) ELSE Out(s, op)

ProjOK(s, p) == p.fired = s.fired

KFOut(s, op) == {}
Trig(S, e)   == {}
=============================================================================
