------------------------------ MODULE ThrottleMC ------------------------------
(***************************************************************************)
(* The property-level throttle (Throttle.tla) driven by arbitrary          *)
(* triggers, cancels, clock jumps and Next threads, with the internal      *)
(* Grant / Deny steps as explicit actions, checked against the wording of  *)
(* C20 over a log of what happened and when.                               *)
(***************************************************************************)
EXTENDS Throttle, TLC
CONSTANTS Per, Threads, Jumps, MaxEv, Trail, Early
VARIABLES s, log
vars == <<s, log>>

Ev(k, t) == [k |-> k, t |-> t]
Init == s = [S0 EXCEPT !.per = Per, !.trailing = Trail] /\ log = <<>>

Do(op, k) == \E st \in Apply(s, op) : s' = st /\ log' = Append(log, Ev(k, s.now))
Next == /\ Len(log) < MaxEv
        /\ \/ Do([n |-> "call", a |-> <<>>], "call")
           \/ Do([n |-> "cancel", a |-> <<>>], "cancel")
           \/ \E d \in Jumps : Do([n |-> "adv", a |-> <<d>>], "adv")
           \/ \E t \in Threads \ DOMAIN s.dec : Do([n |-> "inv", a |-> <<t>>], "inv")
           \/ \E st \in Steps(s, Early) : s' = st /\ log' = Append(log, Ev(IF st.last = s.now /\ ~st.armed /\ s.armed THEN "grant" ELSE "deny", s.now))
           \/ \E t \in DOMAIN s.dec : s.dec[t] # "none" /\ Do([n |-> "ret", a |-> <<t, IF s.dec[t] = "true" THEN 1 ELSE 0>>], "ret")
Spec == Init /\ [][Next]_vars

Idx(k) == { i \in 1..Len(log) : log[i].k = k }
\* at most one permission per period
Spacing == \A i, j \in Idx("grant") : i < j => log[j].t - log[i].t >= Per
\* however many triggers arrive, each permission answers a trigger of its own
Backed == \A j \in Idx("grant") :
             \E c \in Idx("call") : c < j /\ \A i \in Idx("grant") : i < j => i < c
\* a trailing trigger is kept only when configured to: without it, the trigger behind a permission
\* arrived when the period since the previous permission was over
NoTrailingKept == ~Trail => \A j \in Idx("grant") :
             \E c \in Idx("call") : /\ c < j
                                    /\ \A i \in Idx("grant") : i < j => (i < c /\ log[c].t - log[i].t >= Per)
\* after Cancel no permission is handed out
CancelStops == \A c \in Idx("cancel") : \A j \in Idx("grant") : j < c
\* a stored trigger is not lost: while one is ready and a thread is inside Next, a Grant is enabled
Ready == (CanGrant(s) /\ Undecided(s) # {}) => Steps(s, FALSE) # {}
=============================================================================
