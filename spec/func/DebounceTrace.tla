---------------------------- MODULE DebounceTrace ----------------------------
EXTENDS Debounce, Json, IOUtils
VARIABLES S, node, err, kf, taint
T == ndJsonDeserialize(IOEnv.TRACE)
TOut(s, e)   == OutR(s, e.op, e.res)
TKFOut(s, e) == KFOut(s, e.op)
TT == INSTANCE TraceTree
Spec == TT!Spec
NoMismatch == TT!NoMismatch
=============================================================================
