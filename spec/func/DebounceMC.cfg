SPECIFICATION Spec
CONSTANTS
  Wait = 4
  Ticks = {1, 3, 4, 5}
  MaxOps = 7
INVARIANTS NeverEarly OncePerBurst NotAfterCancel DoesRun
CHECK_DEADLOCK FALSE
