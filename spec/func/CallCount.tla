------------------------------ MODULE CallCount ------------------------------
(***************************************************************************)
(* C18 - Before, After, Once and Retry invoke the callback exactly as      *)
(* often as promised.  The callback is a driver closure that counts its    *)
(* invocations and returns its invocation number, so "ran twice but        *)
(* returned the same" is visible.                                          *)
(* State [k, n, cnt, last, ran]: wrapper kind, the remaining count, total  *)
(* invocations so far, the last result, whether Once has run.              *)
(* res.s = <<invocations during this call>> (+ more for Retry), res.v =    *)
(* the value the wrapper returned.                                         *)
(***************************************************************************)
EXTENDS Integers, Sequences, FiniteSets

\* off: the callback returns its invocation number + off (so the first result can be the zero value);
\* now / life / dl: virtual clock, lifetime of Once's cache entry (0 = for ever) and its deadline
S0 == [k |-> "none", n |-> 0, cnt |-> 0, last |-> 0, ran |-> FALSE, off |-> 0, now |-> 0, life |-> 0, dl |-> 0]
R(ok, v, s) == [ok |-> ok, v |-> v, s |-> s, p |-> FALSE]
O(st, res)  == [st |-> st, res |-> res]
Max0(x)     == IF x < 0 THEN 0 ELSE x

\* After(n): suppresses the callback for the first n calls, runs it exactly once on every later call
AfterCall(s) == LET inv == IF s.n < 1 THEN 1 ELSE 0 IN
                { O([s EXCEPT !.n = @ - 1, !.cnt = @ + inv], R(TRUE, 0, <<inv>>)) }
\* Before(n): runs the callback on each of the first n calls and never again; later calls return
\* the result of the last run (the zero value if it never ran)
BeforeCall(s) == IF s.n >= 1
                   THEN { O([s EXCEPT !.n = @ - 1, !.cnt = @ + 1, !.last = s.cnt + 1 + s.off], R(TRUE, s.cnt + 1 + s.off, <<1>>)) }
                   ELSE { O(s, R(TRUE, s.last, <<0>>)) }
\* Once: a single run while the cache entry lives; every call returns that first result
\* ("for as long as its cache entry lives": past the entry's deadline it runs again; exactly at the
\* deadline either answer is accepted)
OnceRun(s)  == O([s EXCEPT !.ran = TRUE, !.cnt = @ + 1, !.last = s.cnt + 1 + s.off,
                           !.dl = IF s.life > 0 THEN s.now + s.life ELSE 0], R(TRUE, s.cnt + 1 + s.off, <<1>>))
OnceCall(s) == IF ~s.ran THEN { OnceRun(s) }
               ELSE (IF s.dl = 0 \/ s.now <= s.dl THEN { O(s, R(TRUE, s.last, <<0>>)) } ELSE {})
                    \cup (IF s.dl > 0 /\ s.now >= s.dl THEN { OnceRun(s) } ELSE {})

\* Retry(n) with the failure pattern p (p[i] = 1: attempt i fails; attempts beyond the pattern fail):
\* calls until success or n failures, never more than n times, not at all for n <= 0;
\* reports the failed attempts and the last error (res.ok = no error; res.s = <<invocations, code of
\* the last error or 0>>)
FirstOK(p) == IF \E i \in DOMAIN p : p[i] = 0 THEN CHOOSE i \in DOMAIN p : p[i] = 0 /\ \A j \in 1..i - 1 : p[j] = 1 ELSE 0
RetryRes(n, p) == LET k == FirstOK(p)  m == Max0(n) IN
                  IF k # 0 /\ k <= m THEN [inv |-> k, att |-> k - 1, ok |-> TRUE, code |-> 0]
                  ELSE [inv |-> m, att |-> m, ok |-> FALSE, code |-> m]
Tl(a) == SubSeq(a, 2, Len(a))
\* for n <= 0 nothing runs; whether an error is reported then is not stated
RetryOK(op, res) == LET r == RetryRes(op.a[1], Tl(op.a)) IN
                    /\ res.s[1] = r.inv /\ res.v = r.att
                    /\ (op.a[1] >= 1 => res.ok = r.ok /\ res.s[2] = r.code)
\* RetryWithDelay(n, d): additionally at least d between consecutive attempts (op.a[2] = d in
\* microseconds, res.s[3] = smallest observed gap; a lower bound only)
DelayOK(op, res) == LET r == RetryRes(op.a[1], SubSeq(op.a, 3, Len(op.a))) IN
                    /\ res.s[1] = r.inv /\ res.v = r.att
                    /\ (op.a[1] >= 1 => res.ok = r.ok)
                    /\ (r.inv >= 2 => res.s[3] >= op.a[2])

\* the same with a callback that takes time itself: res.s[3] = the smallest wait observed between the
\* end of a failed attempt and the start of the next one (op.a[3], op.a[4] = the callback's durations)
DelayCOK(op, res) == LET r == RetryRes(op.a[1], SubSeq(op.a, 5, Len(op.a))) IN
                     /\ res.s[1] = r.inv /\ res.v = r.att
                     /\ (op.a[1] >= 1 => res.ok = r.ok)
                     /\ (r.inv >= 2 => res.s[3] >= op.a[2])

OutR(s, op, res) ==
    CASE op.n = "after_new"  -> { O([S0 EXCEPT !.k = "after", !.n = op.a[1]], R(TRUE, 0, <<>>)) }
      [] op.n = "before_new" -> { O([S0 EXCEPT !.k = "before", !.n = op.a[1], !.off = op.a[2]], R(TRUE, 0, <<>>)) }
      [] op.n = "once_new"   -> { O([S0 EXCEPT !.k = "once", !.off = op.a[2],
                                               !.life = IF Len(op.a) > 2 THEN op.a[3] ELSE 0], R(TRUE, 0, <<>>)) }
      [] op.n = "tick"       -> { O([s EXCEPT !.now = @ + op.a[1]], R(TRUE, 0, <<>>)) }
      [] op.n = "call" -> (CASE s.k = "after" -> AfterCall(s) [] s.k = "before" -> BeforeCall(s)
                            [] s.k = "once" -> OnceCall(s) [] OTHER -> {})
      [] op.n = "retry"      -> IF ~res.p /\ RetryOK(op, res) THEN { O(s, res) } ELSE {}
      [] op.n = "retrydelay" -> IF ~res.p /\ DelayOK(op, res) THEN { O(s, res) } ELSE {}
      [] op.n = "retrydelayc" -> IF ~res.p /\ DelayCOK(op, res) THEN { O(s, res) } ELSE {}
      [] OTHER -> {}
Out(s, op) == OutR(s, op, [ok |-> FALSE, v |-> 0, s |-> <<>>, p |-> TRUE])

ProjOK(s, p) == TRUE
KFOut(s, op) == {}
Trig(S, e)   == {}
=============================================================================
