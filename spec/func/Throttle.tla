------------------------------- MODULE Throttle -------------------------------
(***************************************************************************)
(* C20, second half - NewThrottle (Call / Next / Cancel) at the level of   *)
(* the property, over a VIRTUAL clock and under the controlled scheduler.  *)
(*                                                                         *)
(* A recorded execution is the sequence of events                          *)
(*   new(period, trailing)  call  cancel  adv(d)                           *)
(*   inv(t)  - thread t is about to call Next                              *)
(*   ret(t, ok) - that Next returned ok                                    *)
(*   end(B)  - nothing can move any more; the threads in B sit in Next     *)
(* in the order in which they happened (one thread runs at a time).  The   *)
(* moment at which a pending Next is decided is not recorded: it is an     *)
(* internal step (Grant / Deny) that may be taken anywhere between inv and *)
(* ret, so Out first closes the state under internal steps.                *)
(*                                                                         *)
(* State: now; last (instant of the latest permission, -1 = none); armed   *)
(* (one trigger is stored - never more, however many arrive) with readyAt  *)
(* (the instant from which it may be handed out); stopped; dec[t] for the  *)
(* threads inside Next: "none" (undecided), "true", "false".               *)
(***************************************************************************)
EXTENDS Integers, Sequences, FiniteSets

NoDec == [t \in {} |-> "none"]
S0 == [now |-> 0, per |-> 0, trailing |-> FALSE, last |-> -1, armed |-> FALSE, readyAt |-> 0,
       stopped |-> FALSE, dec |-> NoDec]

R          == [ok |-> TRUE, v |-> 0, s |-> <<>>, p |-> FALSE]
O(st)      == [st |-> st, res |-> R]

SetDec(s, t, v) == [s EXCEPT !.dec = [x \in DOMAIN s.dec \cup {t} |-> IF x = t THEN v ELSE s.dec[x]]]
DelDec(s, t)    == [s EXCEPT !.dec = [x \in DOMAIN s.dec \ {t} |-> s.dec[x]]]
Undecided(s)    == { t \in DOMAIN s.dec : s.dec[t] = "none" }

CanGrant(s) == ~s.stopped /\ s.armed /\ s.now >= s.readyAt
\* open known finding KF-C20-1: a trailing trigger stored inside the period is handed out at once
CanGrantEarly(s) == ~s.stopped /\ s.armed /\ s.now < s.readyAt

\* one internal step; early = the deviation is allowed
Steps(s, early) ==
    { [SetDec(s, t, "true") EXCEPT !.armed = FALSE, !.last = s.now] :
          t \in IF CanGrant(s) \/ (early /\ CanGrantEarly(s)) THEN Undecided(s) ELSE {} }
    \cup { SetDec(s, t, "false") : t \in IF s.stopped THEN Undecided(s) ELSE {} }

RECURSIVE Closure(_, _)
Closure(ss, early) ==
    LET nx == ss \cup UNION { Steps(s, early) : s \in ss }
    IN  IF nx = ss THEN ss ELSE Closure(nx, early)

\* a trigger: ignored when one is already stored or after Cancel; stored for immediate use when the
\* period since the latest permission is over; inside the period kept for the trailing edge only
\* when configured to, otherwise dropped; exactly at the end of the period either reading is accepted
CallOut(s) ==
    IF s.stopped \/ s.armed THEN { s }
    ELSE LET since  == s.now - s.last
             free   == [s EXCEPT !.armed = TRUE, !.readyAt = s.now]
             inside == IF s.trailing THEN [s EXCEPT !.armed = TRUE, !.readyAt = s.last + s.per] ELSE s
         IN  IF s.last < 0 \/ since > s.per THEN { free }
             ELSE IF since = s.per THEN { free, inside }
             ELSE { inside }

Apply(s, op) ==
    CASE op.n = "new"    -> { [S0 EXCEPT !.per = op.a[1], !.trailing = (op.a[2] = 1)] }
      [] op.n = "call"   -> CallOut(s)
      [] op.n = "cancel" -> { [s EXCEPT !.stopped = TRUE] }
      [] op.n = "adv"    -> { [s EXCEPT !.now = @ + op.a[1]] }
      [] op.n = "inv"    -> { SetDec(s, op.a[1], "none") }
      [] op.n = "ret"    -> IF op.a[1] \in DOMAIN s.dec /\ s.dec[op.a[1]] = (IF op.a[2] = 1 THEN "true" ELSE "false")
                              THEN { DelDec(s, op.a[1]) } ELSE {}
      \* quiescence: exactly the recorded threads are inside Next, all undecided, and none of them
      \* could be decided now ("it does run" / "returns false promptly")
      [] op.n = "end"    -> IF /\ DOMAIN s.dec = { op.a[i] : i \in 1..Len(op.a) }
                               /\ Undecided(s) = DOMAIN s.dec
                               /\ (DOMAIN s.dec # {} => ~s.stopped /\ ~CanGrant(s))
                              THEN { s } ELSE {}
      [] OTHER -> {}

OutE(s, op, early) == { O(st) : st \in UNION { Apply(c, op) : c \in Closure({s}, early) } }
Out(s, op) == OutE(s, op, FALSE)

ProjOK(s, p) == TRUE
Trig(S, e)   == {}
=============================================================================
