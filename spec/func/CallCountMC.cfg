SPECIFICATION Spec
CONSTANTS
  MaxCalls = 7
INVARIANTS Counts RetryBounded
PROPERTY Returns
CHECK_DEADLOCK FALSE
