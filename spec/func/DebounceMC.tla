------------------------------ MODULE DebounceMC ------------------------------
(***************************************************************************)
(* Debounce!Out against the wording of C20 over a log of calls, cancels    *)
(* and runs with their instants.                                           *)
(***************************************************************************)
EXTENDS Debounce, TLC
CONSTANTS Wait, Ticks, MaxOps
VARIABLES s, res, last, log, nops
vars == <<s, res, last, log, nops>>

Ops == { [n |-> "call", a |-> <<nops + 1>>], [n |-> "cancel", a |-> <<>>] } \cup { [n |-> "tick", a |-> <<t>>] : t \in Ticks }
Init == /\ s = [S0 EXCEPT !.wait = Wait] /\ res = R(<<>>) /\ last = [n |-> "newd", a |-> <<Wait>>]
        /\ log = <<>> /\ nops = 0
Next == /\ nops < MaxOps
        /\ \E op \in Ops : \E o \in Out(s, op) :
             /\ s' = o.st /\ res' = o.res /\ last' = op /\ nops' = nops + 1
             /\ log' = log \o (IF op.n = "call" THEN << [k |-> "call", id |-> op.a[1], t |-> s.now] >>
                               ELSE IF op.n = "cancel" THEN << [k |-> "cancel", id |-> 0, t |-> s.now] >>
                               ELSE IF o.res.s # <<>> THEN << [k |-> "run", id |-> o.res.s[1], t |-> o.res.s[2]] >>
                               ELSE <<>>)
Spec == Init /\ [][Next]_vars

Idx(k)  == { i \in 1..Len(log) : log[i].k = k }
\* never sooner than the wait after the most recent call before it
NeverEarly == \A r \in Idx("run") : \A c \in Idx("call") : c < r => log[r].t >= log[c].t + Wait
\* every run belongs to a burst: a call before it with no run or cancel in between; at most one run per burst
OncePerBurst == \A r \in Idx("run") :
                   /\ \E c \in Idx("call") : c < r /\ \A j \in (c + 1)..(r - 1) : log[j].k = "call"
                   /\ log[r].id \in { log[c].id : c \in { c \in Idx("call") : c < r /\ \A j \in (c + 1)..(r - 1) : log[j].k = "call" } }
\* not at all after cancel: a cancel is never directly followed by a run
NotAfterCancel == \A r \in Idx("run") : r > 1 => log[r - 1].k # "cancel"
\* it does run: a call that is still the last entry of the log has not been overtaken by the clock
DoesRun == (Len(log) > 0 /\ log[Len(log)].k = "call") => s.now <= log[Len(log)].t + Wait
=============================================================================
