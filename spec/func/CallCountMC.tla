---------------------------- MODULE CallCountMC ----------------------------
(***************************************************************************)
(* Exhaustive model check of CallCount against the counting wording of     *)
(* C18: after c calls the callback has run max(0, c - max(n,0)) times      *)
(* (After), min(c, max(n,0)) times (Before), min(c, 1) times (Once); and   *)
(* Retry never runs more than n times.                                     *)
(***************************************************************************)
EXTENDS CallCount, TLC
CONSTANTS MaxCalls
Ns == -2..4
VARIABLES s, res, n0, calls, runs
vars == <<s, res, n0, calls, runs>>
Min(a, b) == IF a < b THEN a ELSE b
\* runs: the instants at which the callback ran (Once with a lifetime of 3 ticks: the clock may jump)
Init == \E k \in {"after_new", "before_new", "once_new"} : \E n \in Ns : \E off \in {0, -1} : \E life \in {0, 3} :
          \E o \in Out(S0, [n |-> k, a |-> <<n, off, life>>]) :
            s = o.st /\ res = o.res /\ n0 = n /\ calls = 0 /\ runs = <<>>
Next == \/ /\ calls < MaxCalls
           /\ \E o \in Out(s, [n |-> "call", a |-> <<>>]) :
                /\ s' = o.st /\ res' = o.res /\ calls' = calls + 1 /\ UNCHANGED n0
                /\ runs' = IF o.res.s[1] = 1 THEN Append(runs, s.now) ELSE runs
        \/ /\ s.k = "once" /\ s.life > 0 /\ s.now < 9
           /\ \E d \in {1, 2, 4} : \E o \in Out(s, [n |-> "tick", a |-> <<d>>]) : s' = o.st /\ res' = o.res
           /\ UNCHANGED <<n0, calls, runs>>
Spec == Init /\ [][Next]_vars
Counts == CASE s.k = "after"  -> s.cnt = Max0(calls - Max0(n0))
            [] s.k = "before" -> s.cnt = Min(calls, Max0(n0))
            [] s.k = "once"   -> IF s.life = 0 THEN s.cnt = Min(calls, 1)
                                 \* a single run for as long as the entry lives: runs are a lifetime apart
                                 ELSE /\ s.cnt = Len(runs) /\ (calls > 0 => s.cnt >= 1)
                                      /\ \A i \in 1..Len(runs) - 1 : runs[i + 1] - runs[i] >= s.life
\* later calls return the result of the last run; Once returns the first result
Returns == [][ calls' = calls + 1 =>
               /\ (s.k = "before" => res'.v = IF Max0(n0) = 0 THEN 0 ELSE Min(calls', Max0(n0)) + s.off)
               /\ (s.k = "once"   => res'.v = s'.cnt + s.off)       \* the result of the latest run, never a fresh one
               /\ res'.s[1] \in {0, 1} ]_vars
Patterns == UNION { [1..k -> {0, 1}] : k \in 0..4 }
RetryBounded == \A n \in Ns : \A p \in Patterns :
                  LET r == RetryRes(n, p) IN
                  /\ r.inv <= Max0(n) /\ (n <= 0 => r.inv = 0)
                  /\ r.att = (IF r.ok THEN r.inv - 1 ELSE r.inv)
                  /\ (r.ok => p[r.inv] = 0 /\ \A i \in 1..r.inv - 1 : p[i] = 1)
                  /\ (~r.ok => \A i \in 1..Min(r.inv, Len(p)) : p[i] = 1)
=============================================================================
