---------------------------- MODULE CallCountMC ----------------------------
(***************************************************************************)
(* Exhaustive model check of CallCount against the counting wording of     *)
(* C18: after c calls the callback has run max(0, c - max(n,0)) times      *)
(* (After), min(c, max(n,0)) times (Before), min(c, 1) times (Once); and   *)
(* Retry never runs more than n times.                                     *)
(***************************************************************************)
EXTENDS CallCount, TLC
CONSTANTS MaxCalls
Ns == -2..4
VARIABLES s, res, n0, calls
vars == <<s, res, n0, calls>>
Min(a, b) == IF a < b THEN a ELSE b
Init == \E k \in {"after_new", "before_new", "once_new"} : \E n \in Ns :
          \E o \in Out(S0, [n |-> k, a |-> <<n>>]) : s = o.st /\ res = o.res /\ n0 = n /\ calls = 0
Next == /\ calls < MaxCalls
        /\ \E o \in Out(s, [n |-> "call", a |-> <<>>]) : s' = o.st /\ res' = o.res /\ calls' = calls + 1 /\ UNCHANGED n0
Spec == Init /\ [][Next]_vars
Counts == CASE s.k = "after"  -> s.cnt = Max0(calls - Max0(n0))
            [] s.k = "before" -> s.cnt = Min(calls, Max0(n0))
            [] s.k = "once"   -> s.cnt = Min(calls, 1)
\* later calls return the result of the last run; Once returns the first result
Returns == [][ /\ (s.k = "before" => res'.v = Min(calls', Max0(n0)))
               /\ (s.k = "once"   => res'.v = 1)
               /\ res'.s[1] \in {0, 1} ]_vars
Patterns == UNION { [1..k -> {0, 1}] : k \in 0..4 }
RetryBounded == \A n \in Ns : \A p \in Patterns :
                  LET r == RetryRes(n, p) IN
                  /\ r.inv <= Max0(n) /\ (n <= 0 => r.inv = 0)
                  /\ r.att = (IF r.ok THEN r.inv - 1 ELSE r.inv)
                  /\ (r.ok => p[r.inv] = 0 /\ \A i \in 1..r.inv - 1 : p[i] = 1)
                  /\ (~r.ok => \A i \in 1..Min(r.inv, Len(p)) : p[i] = 1)
=============================================================================
