------------------------------- MODULE Memoize -------------------------------
(***************************************************************************)
(* C17 - Memoizer.Memoize: one computation per key at a time, the cached   *)
(* value is served without computing (DESIGN.md 7/C17, Appendix B.4).      *)
(*                                                                         *)
(* A recorded execution (controlled scheduler, virtual clock) is the       *)
(* sequence of events                                                      *)
(*   new(exp)              the memoizer; exp <= 0: entries never expire    *)
(*   inv(t, k)             thread t calls Memoize(k, fn)                   *)
(*   fnstart(t, k, e)      fn starts running on thread t: execution e      *)
(*   fnend(e, ok, v)       execution e returns value v or an error         *)
(*   ret(t, ok, v)         the call of thread t returns                    *)
(*   adv(d)                the clock jumps                                 *)
(*   sweep                 Cache.DeleteExpired() was called                *)
(*   end(B)                nothing can move; threads B never returned      *)
(* What is NOT recorded - the cache lookup, joining an execution in        *)
(* flight, storing the value, releasing the flight - are internal steps    *)
(* searched by the closure, as permissive as the statement: the lookup may *)
(* happen anywhere between inv and what follows; the value may be stored   *)
(* anywhere between fnend and the leader's return; joiners return the      *)
(* execution's outcome once it is known.                                   *)
(*                                                                         *)
(* State: now, exp; cache[k] = <<>> or <<[v, dl]>> (dl = 0: for ever);     *)
(* fl[k] = the execution in flight for k (0 = none); ex[e] = [k, out,      *)
(* stored] with out = <<>> while running, else <<[ok, v]>>; pc[t] = what   *)
(* the call of t is doing: [st, k, e, v].                                  *)
(***************************************************************************)
EXTENDS Integers, Sequences, FiniteSets

NoFn == [x \in {} |-> 0]
S0 == [now |-> 0, exp |-> 0, cache |-> NoFn, fl |-> NoFn, ex |-> NoFn, pc |-> NoFn]
R          == [ok |-> TRUE, v |-> 0, s |-> <<>>, p |-> FALSE]
O(st)      == [st |-> st, res |-> R]

Set(f, x, v) == [y \in DOMAIN f \cup {x} |-> IF y = x THEN v ELSE f[y]]
Del(f, x)    == [y \in DOMAIN f \ {x} |-> f[y]]
Get(f, x, d) == IF x \in DOMAIN f THEN f[x] ELSE d

Cached(s, k)   == Get(s.cache, k, <<>>)
SureLive(s, k) == Cached(s, k) # <<>> /\ (Cached(s, k)[1].dl = 0 \/ s.now < Cached(s, k)[1].dl)
MayLive(s, k)  == Cached(s, k) # <<>> /\ (Cached(s, k)[1].dl = 0 \/ s.now <= Cached(s, k)[1].dl)
Flight(s, k)   == Get(s.fl, k, 0)

Pc(st, k, e, v) == [st |-> st, k |-> k, e |-> e, v |-> v]

\* internal steps of the call of thread t
StepsOf(s, t) ==
    LET p == s.pc[t] IN
    \* cache lookup: a live entry is returned without computing; a miss leads on
    (IF p.st \in {"called", "missed"} /\ MayLive(s, p.k)
       THEN { [s EXCEPT !.pc[t] = Pc("hit", p.k, 0, Cached(s, p.k)[1].v)] } ELSE {})
    \cup (IF p.st = "called" /\ ~SureLive(s, p.k) THEN { [s EXCEPT !.pc[t] = Pc("missed", p.k, 0, 0)] } ELSE {})
    \* join the execution in flight for the key
    \cup (IF p.st = "missed" /\ Flight(s, p.k) # 0 THEN { [s EXCEPT !.pc[t] = Pc("joined", p.k, Flight(s, p.k), 0)] } ELSE {})
    \* the leader stores a successful value (only if the key has no live entry: set-if-absent); errors are never stored
    \cup (IF p.st = "leading" /\ s.ex[p.e].out # <<>> /\ s.ex[p.e].out[1].ok /\ ~s.ex[p.e].stored
            THEN { [s EXCEPT !.ex[p.e].stored = TRUE,
                             !.cache = IF SureLive(s, p.k) THEN @
                                       ELSE Set(@, p.k, << [v |-> s.ex[p.e].out[1].v,
                                                           dl |-> IF s.exp > 0 THEN s.now + s.exp ELSE 0] >>)] }
                 \cup (IF MayLive(s, p.k) /\ ~SureLive(s, p.k) THEN { [s EXCEPT !.ex[p.e].stored = TRUE] } ELSE {})
            ELSE {})
    \* the leader releases the flight once the outcome is known (and, if successful, stored)
    \cup (IF p.st = "leading" /\ s.ex[p.e].out # <<>> /\ (s.ex[p.e].out[1].ok => s.ex[p.e].stored) /\ Flight(s, p.k) = p.e
            THEN { [s EXCEPT !.fl = Set(@, p.k, 0)] } ELSE {})

Steps(s) == UNION { StepsOf(s, t) : t \in DOMAIN s.pc }

RECURSIVE Closure(_)
Closure(ss) == LET nx == ss \cup UNION { Steps(s) : s \in ss } IN IF nx = ss THEN ss ELSE Closure(nx)

\* what a call may return
Returnable(s, t, ok, v) ==
    LET p == s.pc[t] IN
    \/ p.st = "hit" /\ ok /\ v = p.v
    \/ /\ p.st \in {"leading", "joined"} /\ s.ex[p.e].out # <<>>
       /\ s.ex[p.e].out[1].ok = ok /\ (ok => s.ex[p.e].out[1].v = v)
       /\ (p.st = "leading" => Flight(s, p.k) # p.e)          \* the leader has released the flight
       /\ (p.st = "joined" => TRUE)

Apply(s, op) ==
    CASE op.n = "new"     -> { [S0 EXCEPT !.exp = op.a[1]] }
      [] op.n = "adv"     -> { [s EXCEPT !.now = @ + op.a[1]] }
      \* Cache.DeleteExpired (what the background cleanup does on a tick): expired entries go, live ones stay
      [] op.n = "sweep"   -> LET sure == { k \in DOMAIN s.cache : s.cache[k] # <<>> /\ s.cache[k][1].dl > 0 /\ s.now > s.cache[k][1].dl }
                                 edge == { k \in DOMAIN s.cache : s.cache[k] # <<>> /\ s.cache[k][1].dl > 0 /\ s.now = s.cache[k][1].dl }
                             IN  { [s EXCEPT !.cache = [k \in DOMAIN s.cache |-> IF k \in sure \cup e THEN <<>> ELSE s.cache[k]]] : e \in SUBSET edge }
      [] op.n = "inv"     -> { [s EXCEPT !.pc = Set(@, op.a[1], Pc("called", op.a[2], 0, 0))] }
      \* at no instant are two executions for one key in progress; none starts while a cached value is live
      [] op.n = "fnstart" -> LET t == op.a[1]  k == op.a[2]  e == op.a[3] IN
                             IF t \in DOMAIN s.pc /\ s.pc[t].st = "missed" /\ s.pc[t].k = k /\ Flight(s, k) = 0
                               THEN { [s EXCEPT !.pc[t] = Pc("leading", k, e, 0), !.fl = Set(@, k, e),
                                                !.ex = Set(@, e, [k |-> k, out |-> <<>>, stored |-> FALSE])] }
                               ELSE {}
      [] op.n = "fnend"   -> IF op.a[1] \in DOMAIN s.ex /\ s.ex[op.a[1]].out = <<>>
                               THEN { [s EXCEPT !.ex[op.a[1]].out = << [ok |-> op.a[2] = 1, v |-> op.a[3]] >>] } ELSE {}
      [] op.n = "ret"     -> IF op.a[1] \in DOMAIN s.pc /\ Returnable(s, op.a[1], op.a[2] = 1, op.a[3])
                               THEN { [s EXCEPT !.pc = Del(@, op.a[1])] } ELSE {}
      \* quiescence: nobody is left inside Memoize ("different keys do not block each other", no lost wake-up)
      [] op.n = "end"     -> IF DOMAIN s.pc = {} /\ Len(op.a) = 0 THEN { s } ELSE {}
      [] OTHER -> {}

Out(s, op) == { O(st) : st \in UNION { Apply(c, op) : c \in Closure({s}) } }

ProjOK(s, p) == TRUE
KFOut(s, op) == {}
Trig(S, e)   == {}
=============================================================================
