SPECIFICATION Spec
CONSTANTS
  Threads = {1, 2, 3}
  Keys = {0, 1}
  Exp = 5
  MaxCalls = 3
  MaxExec = 2
  Broken = FALSE
INVARIANTS OneInFlight NoRecompute ErrorsNotCached Provenance KeysIndependent
CHECK_DEADLOCK FALSE
