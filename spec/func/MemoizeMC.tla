------------------------------ MODULE MemoizeMC ------------------------------
(***************************************************************************)
(* Memoize.tla driven by arbitrary callers, clock jumps and computation    *)
(* outcomes, with the internal steps as explicit actions, against the      *)
(* wording of C17 over ghost history.                                      *)
(***************************************************************************)
EXTENDS Memoize, TLC
CONSTANTS Threads, Keys, Exp, MaxCalls, MaxExec, Broken
VARIABLES s, calls, nexec, live, before, got
vars == <<s, calls, nexec, live, before, got>>
\* live[t]   : the key of t's call has had a (surely) live cached value at every moment since the call began
\* before[t] : the executions that had already ended when t's call began
\* got       : for every finished call, [t, k, ok, v, e] with e the execution whose outcome it returned (0: cache)

Init == /\ s = [S0 EXCEPT !.exp = Exp] /\ calls = 0 /\ nexec = 0
        /\ live = [t \in Threads |-> FALSE] /\ before = [t \in Threads |-> {}] /\ got = {}

Ended(st) == { e \in DOMAIN st.ex : st.ex[e].out # <<>> }
Track(st1) == live' = [t \in Threads |-> t \in DOMAIN st1.pc /\ live[t] /\ SureLive(st1, st1.pc[t].k)]

Inv(t, k) == /\ t \notin DOMAIN s.pc /\ calls < MaxCalls
             /\ \E st \in Apply(s, [n |-> "inv", a |-> <<t, k>>]) : s' = st
             /\ calls' = calls + 1 /\ live' = [live EXCEPT ![t] = SureLive(s, k)]
             /\ before' = [before EXCEPT ![t] = Ended(s)] /\ UNCHANGED <<nexec, got>>
FnStart(t) == /\ t \in DOMAIN s.pc /\ nexec < MaxExec
              /\ \E st \in Apply(s, [n |-> "fnstart", a |-> <<t, s.pc[t].k, nexec + 1>>]) : s' = st /\ Track(st)
              /\ nexec' = nexec + 1 /\ UNCHANGED <<calls, before, got>>
\* negative control (Broken = TRUE): an execution starts although one is in flight for the key
BadStart(t) == /\ Broken /\ t \in DOMAIN s.pc /\ s.pc[t].st = "missed" /\ nexec < MaxExec /\ Flight(s, s.pc[t].k) # 0
               /\ s' = [s EXCEPT !.pc[t] = Pc("leading", s.pc[t].k, nexec + 1, 0),
                                 !.ex = Set(@, nexec + 1, [k |-> s.pc[t].k, out |-> <<>>, stored |-> FALSE])]
               /\ Track(s') /\ nexec' = nexec + 1 /\ UNCHANGED <<calls, before, got>>
FnEnd(e, ok) == /\ \E st \in Apply(s, [n |-> "fnend", a |-> <<e, IF ok THEN 1 ELSE 0, 100 + e>>]) : s' = st /\ Track(st)
                /\ UNCHANGED <<calls, nexec, before, got>>
Ret(t) == /\ t \in DOMAIN s.pc
          /\ \E ok \in BOOLEAN, v \in {0} \cup { 100 + e : e \in 1..MaxExec } :
               /\ (~ok => v = 0)
               /\ \E st \in Apply(s, [n |-> "ret", a |-> <<t, IF ok THEN 1 ELSE 0, v>>]) : s' = st /\ Track(st)
               /\ got' = got \cup { [t |-> t, k |-> s.pc[t].k, ok |-> ok, v |-> v, e |-> s.pc[t].e, pre |-> before[t]] }
          /\ UNCHANGED <<calls, nexec, before>>
Adv == /\ s.now < 6 /\ \E st \in Apply(s, [n |-> "adv", a |-> <<3>>]) : s' = st /\ Track(st)
       /\ UNCHANGED <<calls, nexec, before, got>>
Internal == \E st \in Steps(s) : s' = st /\ Track(st) /\ UNCHANGED <<calls, nexec, before, got>>

Next == \/ \E t \in Threads, k \in Keys : Inv(t, k)
        \/ \E t \in Threads : FnStart(t) \/ Ret(t) \/ BadStart(t)
        \/ \E e \in DOMAIN s.ex, ok \in BOOLEAN : FnEnd(e, ok)
        \/ Adv \/ Internal
Spec == Init /\ [][Next]_vars

Running(k) == { e \in DOMAIN s.ex : s.ex[e].k = k /\ s.ex[e].out = <<>> }
\* at no instant are two executions for one key in progress
OneInFlight == \A k \in Keys : Cardinality(Running(k)) <= 1
\* a cached value is served without invoking the function: a call during which the key's cached value was
\* live throughout never leads an execution
NoRecompute == \A t \in DOMAIN s.pc : s.pc[t].st = "leading" /\ s.ex[s.pc[t].e].out = <<>> => ~live[t]
\* an error is never cached
ErrorsNotCached == \A k \in DOMAIN s.cache : s.cache[k] # <<>> =>
                      \E e \in DOMAIN s.ex : s.ex[e].k = k /\ s.ex[e].out # <<>> /\ s.ex[e].out[1].ok /\ s.ex[e].out[1].v = s.cache[k][1].v
\* every caller receives what an execution for ITS key produced, one that overlapped or preceded the call;
\* an error is never served from the cache, only by the execution the call led or joined (which may have
\* finished computing a moment before the call began, while its flight was still being released - the
\* statement's "or preceded"); joiners of one execution agree
Provenance == \A g \in got :
                 /\ (g.ok => \E e \in DOMAIN s.ex : s.ex[e].k = g.k /\ s.ex[e].out = << [ok |-> TRUE, v |-> g.v] >>)
                 /\ (~g.ok => g.e # 0 /\ s.ex[g.e].k = g.k /\ ~s.ex[g.e].out[1].ok)
                 /\ (g.e # 0 => s.ex[g.e].out[1].ok = g.ok /\ (g.ok => s.ex[g.e].out[1].v = g.v))
\* different keys do not block each other: whatever the other keys are doing, a call on a key with no
\* execution in flight can always move on
KeysIndependent == \A t \in DOMAIN s.pc : (Running(s.pc[t].k) = {} /\ Flight(s, s.pc[t].k) = 0) =>
                      \/ StepsOf(s, t) # {}
                      \/ s.pc[t].st \in {"missed", "hit"}            \* may start computing / may return
                      \/ (s.pc[t].st \in {"leading", "joined"} /\ s.ex[s.pc[t].e].out # <<>>)
=============================================================================
