---------------------------- MODULE ThrottleTrace ----------------------------
EXTENDS Throttle, Json, IOUtils
CONSTANT OpenKF
VARIABLES S, node, err, kf, taint
T == ndJsonDeserialize(IOEnv.TRACE)
TOut(s, e)   == Out(s, e.op)
TKFOut(s, e) == IF "KF-C20-1" \in OpenKF
                  THEN { [st |-> o.st, res |-> o.res, kf |-> "KF-C20-1", taint |-> FALSE] : o \in OutE(s, e.op, TRUE) }
                  ELSE {}
TT == INSTANCE TraceTree
Spec == TT!Spec
NoMismatch == TT!NoMismatch
=============================================================================
