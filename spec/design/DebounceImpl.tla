---------------------------- MODULE DebounceImpl ----------------------------
(***************************************************************************)
(* Design-level model of NewDebounce (func.go) as written: a mutex, one    *)
(* timer pointer, `add` = Lock; if timer != nil { timer.Stop() };          *)
(* timer = AfterFunc(wait, f); Unlock and `cancel` = Lock; Stop; nil;      *)
(* Unlock.  The Go runtime fires a timer in a goroutine of its own WITHOUT *)
(* the debouncer's mutex, so a critical section is not atomic with respect *)
(* to a firing: `add`/`cancel` are split at the points where a firing can  *)
(* fall in between (Lock / Stop the old timer / arm the new one + Unlock). *)
(* A timer fires at or after its deadline, at most `Late` units late;      *)
(* `Stop` of a timer that has fired already changes nothing.               *)
(* Delay (one AfterFunc, no mutex) is the one-caller, one-add instance.    *)
(*                                                                         *)
(* TLC checks, for every interleaving of the callers, the timer and time:  *)
(*   NotEarly      a run never happens sooner than W after the most recent *)
(*                 arming that preceded it                                 *)
(*   OneArmed      at most one timer is armed, and it is the one the       *)
(*                 debouncer points at - so a burst produces one run       *)
(*   RunsSpaced    two consecutive runs are at least W apart               *)
(*   QuietAfterCancel  once a cancel has completed and until the next      *)
(*                 arming nothing is armed (hence nothing runs)            *)
(*   NoLostRun     when nobody is inside a call, the current timer is      *)
(*                 armed or has fired - never stopped and forgotten        *)
(*   EventuallyRuns (liveness, weak fairness of the firing) an armed timer *)
(*                 is eventually stopped or fires                          *)
(* Negative controls: WithLock = FALSE (the critical sections of two       *)
(* callers overlap: OneArmed, RunsSpaced and NotEarly fail) and            *)
(* StopOld = FALSE (`add` arms a new timer without stopping the old one).  *)
(***************************************************************************)
EXTENDS Integers, FiniteSets, Sequences
CONSTANTS Callers, W, MaxNow, MaxTimers, MaxCancels, Late, WithLock, StopOld
VARIABLES now, timers, cur, mu, pc, runs, lastArm, quiet, ncancel
vars == <<now, timers, cur, mu, pc, runs, lastArm, quiet, ncancel>>
\* timers: sequence of [dl, st]; cur: index of d.timer, 0 = nil; mu: 0 = free, else the holder;
\* runs: sequence of [t, tm, la] (instant, timer, lastArm at that instant); quiet: a cancel completed and
\* nothing was armed since

Armed(i) == timers[i].st = "armed"
Init == /\ now = 0 /\ timers = <<>> /\ cur = 0 /\ mu = 0 /\ pc = [c \in Callers |-> "idle"]
        /\ runs = <<>> /\ lastArm = -1 /\ quiet = FALSE /\ ncancel = 0

Lock(c)   == IF WithLock THEN mu = 0 /\ mu' = c ELSE UNCHANGED mu
Unlock(c) == IF WithLock THEN mu' = 0 ELSE UNCHANGED mu

AddLock(c) == /\ pc[c] = "idle" /\ Len(timers) < MaxTimers /\ Lock(c)
              /\ pc' = [pc EXCEPT ![c] = "a_stop"]
              /\ UNCHANGED <<now, timers, cur, runs, lastArm, quiet, ncancel>>
AddStop(c) == /\ pc[c] = "a_stop"
              /\ timers' = IF StopOld /\ cur # 0 /\ Armed(cur) THEN [timers EXCEPT ![cur].st = "stopped"] ELSE timers
              /\ pc' = [pc EXCEPT ![c] = "a_arm"]
              /\ UNCHANGED <<now, cur, mu, runs, lastArm, quiet, ncancel>>
AddArm(c)  == /\ pc[c] = "a_arm" /\ Len(timers) < MaxTimers
              /\ timers' = Append(timers, [dl |-> now + W, st |-> "armed"])
              /\ cur' = Len(timers) + 1 /\ lastArm' = now /\ quiet' = FALSE
              /\ Unlock(c) /\ pc' = [pc EXCEPT ![c] = "idle"]
              /\ UNCHANGED <<now, runs, ncancel>>
CancelLock(c) == /\ pc[c] = "idle" /\ ncancel < MaxCancels /\ Lock(c)
                 /\ pc' = [pc EXCEPT ![c] = "c_stop"] /\ ncancel' = ncancel + 1
                 /\ UNCHANGED <<now, timers, cur, runs, lastArm, quiet>>
CancelStop(c) == /\ pc[c] = "c_stop"
                 /\ timers' = IF cur # 0 /\ Armed(cur) THEN [timers EXCEPT ![cur].st = "stopped"] ELSE timers
                 /\ cur' = 0 /\ quiet' = TRUE
                 /\ Unlock(c) /\ pc' = [pc EXCEPT ![c] = "idle"]
                 /\ UNCHANGED <<now, runs, lastArm, ncancel>>
\* the runtime: an armed timer whose deadline has come fires and runs the callback
Fire(i) == /\ Armed(i) /\ now >= timers[i].dl
           /\ timers' = [timers EXCEPT ![i].st = "fired"]
           /\ runs' = Append(runs, [t |-> now, tm |-> i, la |-> lastArm, q |-> quiet])
           /\ UNCHANGED <<now, cur, mu, pc, lastArm, quiet, ncancel>>
\* time stops at MaxNow unless a timer is still waiting for its deadline (then it runs on up to there)
Tick == /\ now < MaxNow \/ \E i \in 1..Len(timers) : Armed(i) /\ now < timers[i].dl
        /\ \A i \in 1..Len(timers) : Armed(i) => now < timers[i].dl + Late
        /\ now' = now + 1
        /\ UNCHANGED <<timers, cur, mu, pc, runs, lastArm, quiet, ncancel>>
Next == \/ \E c \in Callers : AddLock(c) \/ AddStop(c) \/ AddArm(c) \/ CancelLock(c) \/ CancelStop(c)
        \/ \E i \in 1..Len(timers) : Fire(i)
        \/ Tick
Spec == Init /\ [][Next]_vars /\ WF_vars(Tick) /\ WF_vars(\E i \in 1..Len(timers) : Fire(i)) /\ WF_vars(\E c \in Callers : AddStop(c) \/ AddArm(c) \/ CancelStop(c))

NotEarly   == \A k \in 1..Len(runs) : runs[k].t >= runs[k].la + W
OneArmed   == /\ Cardinality({i \in 1..Len(timers) : Armed(i)}) <= 1
              /\ \A i \in 1..Len(timers) : Armed(i) /\ (\A c \in Callers : pc[c] = "idle") => i = cur
RunsSpaced == \A k \in 1..Len(runs) - 1 : runs[k + 1].t >= runs[k].t + W
QuietAfterCancel == /\ quiet => \A i \in 1..Len(timers) : ~Armed(i)
                    /\ \A k \in 1..Len(runs) : ~runs[k].q
NoLostRun  == (\A c \in Callers : pc[c] = "idle") /\ cur # 0 => timers[cur].st # "stopped"
ArmedAt(i) == IF i <= Len(timers) THEN timers[i].st = "armed" ELSE FALSE
EventuallyRuns == \A i \in 1..MaxTimers : [](ArmedAt(i) => <>(~ArmedAt(i)))
=============================================================================
