--------------------------- MODULE BTreeNodesTrace ---------------------------
(***************************************************************************)
(* Binds BTreeNodes.tla to the recordings of the real B-tree (the files    *)
(* C10 validates): the model performs every recorded Put / Remove and its  *)
(* height and size are compared with what the real tree reports after the  *)
(* call.  INFORMATIONAL (the property only bounds the height): a           *)
(* difference is printed (LAYDIFF) and counted, never a violation.         *)
(***************************************************************************)
EXTENDS BTreeNodes, Json, IOUtils, TLC
T == ndJsonDeserialize(IOEnv.TRACE)
VARIABLES node, t
vars == <<node, t>>
Do(op) == CASE op.n = "new"    -> T0
            [] op.n = "put"    -> Put(t, op.a[1], op.a[2])
            [] op.n = "remove" -> Remove(t, op.a[1])
            [] OTHER           -> t
Seen(e) == "np" \notin DOMAIN e.op      \* the real tree was observed after this call
Init == node = 1 /\ t = T0
Next == \E k \in 1..Len(T[node].kids) :
          LET i == T[node].kids[k]  e == T[i]  t1 == Do(e.op) IN
          /\ node' = i /\ t' = t1
          /\ (Seen(e) /\ ~e.res.p /\ ~e.proj.pp) => PrintT(<<"LAYCMP", i>>)
          /\ (Seen(e) /\ ~e.res.p /\ ~e.proj.pp /\ (t1.h # e.proj.h \/ t1.n # e.proj.size)) => PrintT(<<"LAYDIFF", i>>)
Spec == Init /\ [][Next]_vars
=============================================================================
