------------------------------- MODULE Janitor -------------------------------
(***************************************************************************)
(* Design-level model of the expiring cache's background cleanup           *)
(* (cache/cache.go: New starts `go c.cleanup()` when the interval is       *)
(* positive; cleanup runs DeleteExpired on every tick of a ticker armed at *)
(* construction; a finalizer stops it).  Time is discrete; an entry stored *)
(* at s with lifetime d > 0 has the deadline s + d; DeleteExpired removes  *)
(* the entries with now > deadline, never one without a deadline.          *)
(*                                                                         *)
(* TLC checks the two bounds ExpCache.tla grants the cleanup in its        *)
(* TickOut - an expired entry MAY be gone at any moment after its deadline *)
(* and MUST be gone once more than one interval has passed since - against *)
(* this model of what the code does:                                       *)
(*   OnlyExpired   whatever a pass removes is past its deadline            *)
(*   MustBound     while the cleanup runs, no entry is still there when    *)
(*                 now > deadline + interval                               *)
(*   MustEarly     (negative control, expected to FAIL) ... when           *)
(*                 now >= deadline + interval: an entry whose deadline     *)
(*                 falls exactly on a tick survives that tick, and the     *)
(*                 pass of the next tick runs AT, not before, that instant *)
(* A stopped cleanup removes nothing any more (the pass needs `running`).  *)
(* The pass is a step of its own, taken before the clock moves again (the  *)
(* harness's quiescence barrier; the real goroutine is merely prompt).     *)
(***************************************************************************)
EXTENDS Integers, FiniteSets
CONSTANTS Keys, Intv, MaxNow, Lifetimes
VARIABLES now, dl, next, running, due
vars == <<now, dl, next, running, due>>
\* dl[k]: -1 absent, 0 no deadline, > 0 the deadline; next: the next tick; due: a tick has fired and its
\* DeleteExpired pass has not run yet

Init == /\ now = 0 /\ dl = [k \in Keys |-> -1] /\ next = Intv /\ running = TRUE /\ due = FALSE
Store(k, d) == /\ dl' = [dl EXCEPT ![k] = IF d = 0 THEN 0 ELSE now + d] /\ UNCHANGED <<now, next, running, due>>
Delete(k)   == /\ dl[k] >= 0 /\ dl' = [dl EXCEPT ![k] = -1] /\ UNCHANGED <<now, next, running, due>>
Expired(k)  == dl[k] > 0 /\ now > dl[k]
\* the clock moves by one unit (not while a pass is outstanding); a tick that falls due asks for a pass
Tick == /\ now < MaxNow /\ ~due /\ now' = now + 1
        /\ IF running /\ now + 1 = next THEN due' = TRUE /\ next' = next + Intv ELSE UNCHANGED <<due, next>>
        /\ UNCHANGED <<dl, running>>
Pass == /\ due /\ due' = FALSE
        /\ dl' = [k \in Keys |-> IF running /\ Expired(k) THEN -1 ELSE dl[k]]
        /\ UNCHANGED <<now, next, running>>
Stop == running /\ running' = FALSE /\ UNCHANGED <<now, dl, next, due>>
Next == \/ \E k \in Keys, d \in Lifetimes : Store(k, d)
        \/ \E k \in Keys : Delete(k)
        \/ Tick \/ Pass \/ Stop
Spec == Init /\ [][Next]_vars

OnlyExpired == [][ (due /\ ~due') => \A k \in Keys : dl'[k] # dl[k] => (Expired(k) /\ running /\ dl'[k] = -1) ]_vars
MustBound   == running => \A k \in Keys : dl[k] > 0 => ~(now > dl[k] + Intv)
MustEarly   == running => \A k \in Keys : dl[k] > 0 => ~(now >= dl[k] + Intv)
=============================================================================
