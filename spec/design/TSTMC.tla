-------------------------------- MODULE TSTMC --------------------------------
EXTENDS TST, SequencesExt, TLC
CONSTANTS Alpha, MaxLen, MaxOps
VARIABLES t, m, nops
vars == <<t, m, nops>>
RECURSIVE Strs(_)
Strs(n) == IF n = 0 THEN { <<>> } ELSE Strs(n - 1) \cup { Append(s, c) : s \in Strs(n - 1), c \in Alpha }
AllKeys == Strs(MaxLen) \ { <<>> }
Queries == Strs(MaxLen + 1)
Init == t = T0 /\ m = [k \in {} |-> 0] /\ nops = 0
Next == /\ nops < MaxOps /\ nops' = nops + 1
        /\ \E k \in AllKeys : t' = TPut(t, k, nops + 1) /\ m' = [x \in DOMAIN m \cup {k} |-> IF x = k THEN nops + 1 ELSE m[x]]
Spec == Init /\ [][Next]_vars

Prefix(p, k)  == Len(p) <= Len(k) /\ \A i \in 1..Len(p) : p[i] = k[i]
LexLess(a, b) == \/ (Len(a) < Len(b) /\ Prefix(a, b))
                 \/ \E i \in 1..(IF Len(a) < Len(b) THEN Len(a) ELSE Len(b)) : a[i] < b[i] /\ \A j \in 1..i - 1 : a[j] = b[j]
Sorted(K) == SortSeq(SetToSeq(K), LexLess)
IsMap == /\ t.n = Cardinality(DOMAIN m)
         /\ \A k \in Queries : Get(t.root, k) = (IF k \in DOMAIN m THEN [ok |-> TRUE, v |-> m[k]] ELSE [ok |-> FALSE, v |-> 0])
         /\ Keys(t.root) = Sorted(DOMAIN m)
         /\ \A p \in AllKeys : StartsWith(t.root, p) = Sorted({ k \in DOMAIN m : Prefix(p, k) })
         /\ \A q \in Queries \ { <<>> } :
              LET C == { k \in DOMAIN m : Prefix(k, q) } IN
              LongestPrefix(t.root, q) = (IF C = {} THEN <<>> ELSE CHOOSE k \in C : \A x \in C : Len(x) <= Len(k))
=============================================================================
