----------------------------- MODULE SListPtrMC -----------------------------
EXTENDS SListPtr
CONSTANTS MaxOps, OpenKF
VARIABLES s, last, res, nops
vars == <<s, last, res, nops>>
L == INSTANCE List
Unit == [ok |-> TRUE, v |-> 0, s |-> <<>>, p |-> FALSE]
Err  == [ok |-> FALSE, v |-> 0, s |-> <<>>, p |-> FALSE]
Used == { Values(s)[i] : i \in 1..Len(Values(s)) } \cup {99}
Init == s = New(1) /\ last = [n |-> "news", a |-> <<1>>] /\ res = Unit /\ nops = 0
Step(op, st, r) == s' = st /\ last' = op /\ res' = r /\ nops' = nops + 1
Next == /\ nops < MaxOps
        /\ LET v == 10 + nops IN
           \/ Step([n |-> "unshift", a |-> <<v>>], SUnshift(s, v), Unit)
           \/ Step([n |-> "append", a |-> <<v>>], SAppend(s, v), Unit)
           \/ Step([n |-> "shift", a |-> <<>>], SShift(s), Unit)
           \/ Step([n |-> "pop", a |-> <<>>], SPop(s), Unit)
           \/ \E x \in Used : LET nd == Find(s, x) IN
                \/ Step([n |-> "insafter", a |-> <<x, v>>], IF nd = NIL THEN s ELSE SInsertAfter(s, nd, v), IF nd = NIL THEN Err ELSE Unit)
                \/ Step([n |-> "replace", a |-> <<x, v>>], IF nd = NIL THEN s ELSE SReplace(s, nd, v), IF nd = NIL THEN Err ELSE Unit)
                \/ IF nd = NIL THEN Step([n |-> "delete", a |-> <<x>>], s, [Err EXCEPT !.v = 2])
                   ELSE IF s.M[0].nx = NIL THEN Step([n |-> "delete", a |-> <<x>>], s, Err)
                   ELSE Step([n |-> "delete", a |-> <<x>>], SDelete(s, nd), Unit)
Spec == Init /\ [][Next]_vars
Abs(st) == [k |-> "s", q |-> Values(st), h |-> 0]
Refines == [][ \E o \in L!Out(Abs(s), last') : o.st = Abs(s') /\ o.res = res' ]_vars
\* the list is never empty and never cyclic
NonEmpty == Len(Addrs(s)) >= 1 /\ Len(Addrs(s)) < 64
=============================================================================
