--------------------------------- MODULE TST ---------------------------------
(***************************************************************************)
(* Design-level model of trie.Trie (trie/trie.go): the ternary search tree *)
(* - one byte per node, left / mid / right children, an isValid flag on    *)
(* the node that ends a stored key - and the recursive algorithms as       *)
(* written: put, get, collect (Keys / StartsWith) and LongestPrefix.       *)
(* (DESIGN.md section 8.)                                                  *)
(*                                                                         *)
(* A node is [c, l, m, r, v, valid]; Nil has c = -1.  TSTMC checks, for    *)
(* every sequence of puts over a small key set, that the tree implements   *)
(* the map of Trie.tla: Get/Contains exactly the stored keys (a prefix     *)
(* node without the flag is not a key), the counter n is the number of     *)
(* keys, Keys / StartsWith in byte-lexicographic order, LongestPrefix.     *)
(***************************************************************************)
EXTENDS Integers, Sequences, FiniteSets
CONSTANT NoValidCheck   \* TRUE: Get as it was before the repair a409422 (any node on a key's path counts as a key)

Nil == [c |-> -1, l |-> 0, m |-> 0, r |-> 0, v |-> 0, valid |-> FALSE]
IsNil(n) == n.c = -1
Node(c, v) == [c |-> c, l |-> Nil, m |-> Nil, r |-> Nil, v |-> v, valid |-> FALSE]

RECURSIVE Put(_, _, _, _)
Put(n0, key, val, d) ==
    LET c == key[d]
        n == IF IsNil(n0) THEN Node(c, val) ELSE n0
    IN  IF c < n.c THEN [n EXCEPT !.l = Put(n.l, key, val, d)]
        ELSE IF c > n.c THEN [n EXCEPT !.r = Put(n.r, key, val, d)]
        ELSE IF d < Len(key) THEN [n EXCEPT !.m = Put(n.m, key, val, d + 1)]
        ELSE [n EXCEPT !.valid = TRUE, !.v = val]

RECURSIVE GetNode(_, _, _)
GetNode(n, key, d) ==
    IF IsNil(n) THEN Nil
    ELSE LET c == key[d] IN
         IF c < n.c THEN GetNode(n.l, key, d)
         ELSE IF c > n.c THEN GetNode(n.r, key, d)
         ELSE IF d < Len(key) THEN GetNode(n.m, key, d + 1)
         ELSE n
\* Get: a node without the flag is only a prefix of some longer key
Get(root, key) == IF key = <<>> THEN [ok |-> FALSE, v |-> 0]
                  ELSE LET x == GetNode(root, key, 1) IN
                       IF IsNil(x) \/ (~x.valid /\ ~NoValidCheck) THEN [ok |-> FALSE, v |-> 0] ELSE [ok |-> TRUE, v |-> x.v]

RECURSIVE Collect(_, _)
\* in-order: left subtree, this key, the subtree below it, right subtree
Collect(n, prefix) ==
    IF IsNil(n) THEN <<>>
    ELSE Collect(n.l, prefix) \o (IF n.valid THEN << Append(prefix, n.c) >> ELSE <<>>)
         \o Collect(n.m, Append(prefix, n.c)) \o Collect(n.r, prefix)
Keys(root) == Collect(root, <<>>)
StartsWith(root, p) == LET x == GetNode(root, p, 1) IN
                       IF IsNil(x) THEN <<>> ELSE (IF x.valid THEN <<p>> ELSE <<>>) \o Collect(x.m, p)

RECURSIVE LPWalk(_, _, _, _)
LPWalk(x, q, i, len) ==
    IF IsNil(x) \/ i > Len(q) THEN len
    ELSE LET c == q[i] IN
         IF c < x.c THEN LPWalk(x.l, q, i, len)
         ELSE IF c > x.c THEN LPWalk(x.r, q, i, len)
         ELSE LPWalk(x.m, q, i + 1, IF x.valid THEN i ELSE len)
LongestPrefix(root, q) == SubSeq(q, 1, LPWalk(root, q, 1, 0))

\* Trie.Put: count the key if it is not stored yet, then insert
TPut(t, key, val) == [root |-> Put(t.root, key, val, 1), n |-> IF Get(t.root, key).ok THEN t.n ELSE t.n + 1]
T0 == [root |-> Nil, n |-> 0]
=============================================================================
