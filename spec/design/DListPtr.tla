------------------------------ MODULE DListPtr ------------------------------
(***************************************************************************)
(* Design-level model of list.DList (list/dlist.go): the pointer graph     *)
(* with the list's first node stored BY VALUE inside the DList struct.     *)
(* Memory is a function from addresses to nodes [v, nx, pv]; address 0 is  *)
(* the node embedded in the struct, -1 is nil, every newDNode and every    *)
(* local copy whose address is taken gets a fresh address.  The operations *)
(* are the assignments of the code, in order, after the repairs 49e0e86    *)
(* (head-replacing operations restore the prev pointers) and 94576a8       *)
(* (Delete recognises the head by identity).  (DESIGN.md section 8.)       *)
(*                                                                         *)
(* DListPtrMC checks that every edit is an outcome of the property-level   *)
(* List!Out on the sequence of values reached from address 0, and that the *)
(* back pointers mirror the forward ones (BackLinks) - the invariant the   *)
(* repair 49e0e86 is about: with OldUnshift = TRUE (Unshift as it was) it  *)
(* fails.                                                                  *)
(***************************************************************************)
EXTENDS Integers, Sequences, FiniteSets, TLC
CONSTANT OldUnshift

NIL == -1
Nd(v, nx, pv) == [v |-> v, nx |-> nx, pv |-> pv]
Set(M, a, n)  == [x \in DOMAIN M \cup {a} |-> IF x = a THEN n ELSE M[x]]
New(v) == [M |-> (0 :> Nd(v, NIL, NIL)), fresh |-> 1]

RECURSIVE Chain(_, _, _)
Chain(M, a, fuel) == IF a = NIL \/ fuel = 0 THEN <<>> ELSE <<a>> \o Chain(M, M[a].nx, fuel - 1)
Addrs(s)  == Chain(s.M, 0, 64)
Values(s) == [i \in 1..Len(Addrs(s)) |-> s.M[Addrs(s)[i]].v]
\* Find: the first node carrying the value (NIL if none)
Find(s, x) == LET as == Addrs(s)  I == { i \in 1..Len(as) : s.M[as[i]].v = x } IN
              IF I = {} THEN NIL ELSE as[CHOOSE i \in I : \A j \in I : i <= j]

DUnshift(s, v) ==
    LET A == s.fresh  H == s.fresh + 1
        M1 == Set(Set(s.M, A, Nd(v, H, NIL)), H, s.M[0])          \* newNode; head := l.DoubleNode; newNode.next = &head
        M2 == Set(M1, 0, [M1[0] EXCEPT !.pv = A])                  \* l.prev = newNode
        M3 == IF OldUnshift THEN M2 ELSE Set(M2, H, [M2[H] EXCEPT !.pv = 0])                       \* head.prev = &l.DoubleNode
        M4 == IF OldUnshift \/ M3[H].nx = NIL THEN M3 ELSE Set(M3, M3[H].nx, [M3[M3[H].nx] EXCEPT !.pv = H])
    IN  [M |-> Set(M4, 0, M4[A]), fresh |-> s.fresh + 2]           \* l.DoubleNode = *newNode
DAppend(s, v) ==
    LET A == s.fresh  as == Addrs(s)  p == as[Len(as)] IN
    [M |-> Set(Set(s.M, A, Nd(v, NIL, p)), p, [s.M[p] EXCEPT !.nx = A]), fresh |-> s.fresh + 1]
DInsertAfter(s, node, v) ==
    LET A == s.fresh
        M1 == Set(s.M, A, Nd(v, s.M[node].nx, node))
        M2 == Set(M1, node, [M1[node] EXCEPT !.nx = A])
    IN  [M |-> IF M2[A].nx = NIL THEN M2 ELSE Set(M2, M2[A].nx, [M2[M2[A].nx] EXCEPT !.pv = A]), fresh |-> s.fresh + 1]
DInsertBefore(s, node, v) ==
    LET A == s.fresh  H == s.fresh + 1
        M0 == Set(s.M, H, s.M[0])                                   \* head := l.DoubleNode (taken at entry)
        M1 == Set(M0, A, Nd(v, node, M0[node].pv))                  \* newNode.prev = node.prev; newNode.next = node
        M2 == Set(M1, node, [M1[node] EXCEPT !.pv = A])             \* node.prev = newNode
    IN  IF M2[A].pv # NIL
          THEN [M |-> Set(M2, M2[A].pv, [M2[M2[A].pv] EXCEPT !.nx = A]), fresh |-> s.fresh + 2]
          ELSE LET M3 == Set(M2, A, [M2[A] EXCEPT !.nx = H])        \* newNode.next = &head
                   M4 == Set(M3, H, [M3[H] EXCEPT !.pv = 0])        \* head.prev = &l.DoubleNode
                   M5 == IF M4[H].nx = NIL THEN M4 ELSE Set(M4, M4[H].nx, [M4[M4[H].nx] EXCEPT !.pv = H])
               IN  [M |-> Set(M5, 0, M5[A]), fresh |-> s.fresh + 2]  \* l.DoubleNode = *newNode
DReplace(s, node, v) == [s EXCEPT !.M = Set(@, node, [@[node] EXCEPT !.v = v])]
DDelete(s, node) ==
    IF node = 0
      THEN LET M1 == Set(s.M, 0, s.M[s.M[0].nx])                    \* l.DoubleNode = *head.next
               M2 == Set(M1, 0, [M1[0] EXCEPT !.pv = NIL])
           IN  [s EXCEPT !.M = IF M2[0].nx = NIL THEN M2 ELSE Set(M2, M2[0].nx, [M2[M2[0].nx] EXCEPT !.pv = 0])]
      ELSE LET n == s.M[node]
               M1 == IF n.nx = NIL THEN s.M ELSE Set(s.M, n.nx, [s.M[n.nx] EXCEPT !.pv = n.pv])
           IN  [s EXCEPT !.M = IF n.pv = NIL THEN M1 ELSE Set(M1, n.pv, [M1[n.pv] EXCEPT !.nx = n.nx])]
DShift(s) == IF s.M[0].nx = NIL THEN [s EXCEPT !.M = Set(@, 0, Nd(0, NIL, NIL))]
            ELSE LET M1 == Set(s.M, 0, [s.M[s.M[0].nx] EXCEPT !.pv = NIL]) IN
                 [s EXCEPT !.M = IF M1[0].nx = NIL THEN M1 ELSE Set(M1, M1[0].nx, [M1[M1[0].nx] EXCEPT !.pv = 0])]
DPop(s) == LET as == Addrs(s) IN
          IF Len(as) = 1 THEN s ELSE [s EXCEPT !.M = Set(@, as[Len(as) - 1], [@[as[Len(as) - 1]] EXCEPT !.nx = NIL])]

\* the back pointers mirror the forward ones along the list
BackLinks(s) == LET as == Addrs(s) IN s.M[0].pv = NIL /\ \A i \in 2..Len(as) : s.M[as[i]].pv = as[i - 1]
=============================================================================
