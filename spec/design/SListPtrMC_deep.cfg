SPECIFICATION Spec
CONSTANTS
  MaxOps = 6
  OpenKF = {}
INVARIANT NonEmpty
PROPERTY Refines
CHECK_DEADLOCK FALSE
