SPECIFICATION Spec
CONSTANTS
  Alpha = {97, 98, 200}
  MaxLen = 2
  MaxOps = 5
  NoValidCheck = FALSE
INVARIANT IsMap
CHECK_DEADLOCK FALSE
