---------------------------- MODULE BTreeNodesMC ----------------------------
EXTENDS BTreeNodes, TLC
CONSTANTS Keys, MaxOps, PutsOnly
VARIABLES t, m, ever, nops
vars == <<t, m, ever, nops>>
\* m: the ordered map the tree must implement (key -> value); ever: keys ever put
NoMap == [k \in {} |-> 0]
Init == t = T0 /\ m = NoMap /\ ever = {} /\ nops = 0
Next == /\ nops < MaxOps /\ nops' = nops + 1
        /\ \/ \E k \in Keys : /\ (PutsOnly => k \notin ever)          \* every insertion ORDER of distinct keys
                              /\ t' = Put(t, k, nops + 1)
                              /\ m' = [x \in DOMAIN m \cup {k} |-> IF x = k THEN nops + 1 ELSE m[x]]
                              /\ ever' = ever \cup {k}
           \/ \E k \in Keys : ~PutsOnly /\ t' = Remove(t, k) /\ m' = [x \in DOMAIN m \ {k} |-> m[x]] /\ ever' = ever
Spec == Init /\ [][Next]_vars

RECURSIVE Pow2(_)
Pow2(n) == IF n = 0 THEN 1 ELSE 2 * Pow2(n - 1)
\* C10: Height never exceeds log2(max(1, N)), N the number of distinct keys ever inserted
HeightBound == Pow2(t.h) <= (IF Cardinality(ever) < 1 THEN 1 ELSE Cardinality(ever))
\* the tree IS the ordered map: Get, Size, Traverse in ascending order with the current values
IsMap == /\ t.n = Cardinality(DOMAIN m)
         /\ \A k \in Keys : Search(t.root, t.h, k) = (IF k \in DOMAIN m THEN [ok |-> TRUE, v |-> m[k]] ELSE [ok |-> FALSE, v |-> 0])
         /\ LET w == Walk(t.root, t.h) IN
            /\ Len(w) = 2 * Cardinality(DOMAIN m)
            /\ \A i \in 1..(Len(w) \div 2) : w[2 * i - 1] \in DOMAIN m /\ w[2 * i] = m[w[2 * i - 1]]
            /\ \A i \in 1..(Len(w) \div 2) - 1 : w[2 * i - 1] < w[2 * i + 1]
=============================================================================
