SPECIFICATION Spec
CONSTANTS
  Vals = {1, 2, 3, 4}
  MaxLen = 7
  MaxOps = 9
  Fixed = FALSE
  OpenKF = {}
INVARIANT IsOrdered
CHECK_DEADLOCK FALSE
