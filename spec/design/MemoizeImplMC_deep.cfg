SPECIFICATION Spec
CONSTANTS
  Threads = {t1, t2, t3}
  Keys = {1, 2}
  Exp = 2
  MaxExec = 3
  MaxNow = 3
  MaxCalls = 4
  Variant = "code"
SYMMETRY Sym
INVARIANTS OneInFlight ErrorsNotCached OwnKey NoRecompute NoStrayWait NoOrphanWait
CHECK_DEADLOCK FALSE
