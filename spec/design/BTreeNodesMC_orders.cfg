SPECIFICATION Spec
CONSTANTS
  Keys = {1, 2, 3, 4, 5, 6, 7, 8, 9}
  MaxOps = 9
  PutsOnly = TRUE
INVARIANTS HeightBound IsMap
CHECK_DEADLOCK FALSE
