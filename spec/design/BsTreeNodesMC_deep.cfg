SPECIFICATION Spec
CONSTANTS
  Desc = FALSE
  MaxKey = 5
  MaxOps = 9
  OpenKF = {"KF-C04-1"}
INVARIANTS Ordered IsMap SizeWithDrift Simulates
CHECK_DEADLOCK FALSE
