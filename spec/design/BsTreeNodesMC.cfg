SPECIFICATION Spec
CONSTANTS
  Desc = FALSE
  MaxKey = 4
  MaxOps = 7
  OpenKF = {"KF-C04-1"}
INVARIANTS Ordered IsMap SizeWithDrift Simulates
CHECK_DEADLOCK FALSE
