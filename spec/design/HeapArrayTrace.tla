---------------------------- MODULE HeapArrayTrace ----------------------------
(***************************************************************************)
(* Binds the design-level model HeapArray.tla to the recordings of the     *)
(* real heap (the same files C03 validates): after every recorded call the *)
(* array GetValues() shows is compared with the array the model predicts   *)
(* from the previous recorded array.  INFORMATIONAL - no listed property   *)
(* pins the layout, so a difference is printed (LAYDIFF) and counted in    *)
(* the evidence, never reported as a violation; the walk then continues    *)
(* from the observed array.                                                *)
(***************************************************************************)
EXTENDS HeapArray, Json, IOUtils, TLC
T == ndJsonDeserialize(IOEnv.TRACE)
VARIABLES node, a, c
vars == <<node, a, c>>

Has(q, v) == \E i \in 1..Len(q) : q[i] = v
Tl(q) == SubSeq(q, 2, Len(q))
\* the array the model predicts, or <<-99>> when the model does not cover the call
Predict(op) ==
    CASE op.n = "new"       -> <<>>
      [] op.n = "fromslice" -> LET q == SelectSeq(Tl(op.a), LAMBDA x : x # -7) IN Heapify(q, CmpName(op.a[1]), Len(q) \div 2)
      [] op.n = "push"      -> Push(a, c, op.a[1])
      [] op.n = "pushn"     -> PushAll(a, c, op.a)          \* the variadic Push sifts one value after the other
      [] op.n = "pop"       -> IF a = <<>> THEN a ELSE PopArr(a, c)
      [] op.n = "delete"    -> IF Has(a, op.a[1]) THEN DeleteArr(a, c, op.a[1]) ELSE a
      [] op.n = "clear"     -> <<>>
      [] op.n = "convert"   -> Heapify(a, CmpName(op.a[1]), Len(a) \div 2)
      [] OTHER              -> <<-99>>
NewCmp(op) == IF op.n \in {"new", "fromslice", "convert"} THEN CmpName(op.a[1]) ELSE c

Init == node = 1 /\ a = <<>> /\ c = "lt"
Next == \E k \in 1..Len(T[node].kids) :
          LET i == T[node].kids[k]  e == T[i]  p == Predict(e.op) IN
          /\ node' = i /\ a' = e.proj.lay /\ c' = NewCmp(e.op)
          /\ (p # <<-99>> /\ ~e.res.p /\ p # e.proj.lay) => PrintT(<<"LAYDIFF", i>>)
          /\ (p # <<-99>> /\ ~e.res.p) => PrintT(<<"LAYCMP", i>>)
Spec == Init /\ [][Next]_vars
=============================================================================
