------------------------------ MODULE LRUListMC ------------------------------
EXTENDS LRUList
CONSTANTS Keys, Caps, MaxOps
VARIABLES s, last, res, nops
vars == <<s, last, res, nops>>
P == INSTANCE LRU
Ops(v) == { [n |-> "add", a |-> <<k, v>>] : k \in Keys } \cup { [n |-> "get", a |-> <<k>>] : k \in Keys }
          \cup { [n |-> "remove", a |-> <<k>>] : k \in Keys }
          \cup { [n |-> x, a |-> <<>>] : x \in {"getoldest", "removeoldest", "removeyoungest", "flush"} }
Init == \E c \in Caps : s = New(c) /\ last = [n |-> "new", a |-> <<c>>] /\ res = R(TRUE, 0, <<>>) /\ nops = 0
Next == /\ nops < MaxOps /\ nops' = nops + 1
        /\ \E op \in Ops(nops + 1) : LET d == Do(s, op) IN s' = d.st /\ res' = d.res /\ last' = op
Spec == Init /\ [][Next]_vars
Structure == WellFormed(s)
\* every step of the pointer-level model is an outcome the property-level specification allows
Refines == [][ \E o \in P!Out(Abs(s), last') : o.st = Abs(s') /\ o.res = res' ]_vars
=============================================================================
