--------------------------- MODULE BsTreeNodesMC ---------------------------
EXTENDS BsTreeNodes, TLC
CONSTANTS MaxKey, MaxOps, OpenKF
VARIABLES t, size, abs, last, res, nops
vars == <<t, size, abs, last, res, nops>>
B == INSTANCE BsTree
Init == /\ t = Leaf /\ size = 0 /\ nops = 0
        /\ abs = [m |-> B!NoMap, c |-> IF Desc THEN "desc" ELSE "asc", drift |-> 0]
        /\ last = [n |-> "new", a |-> <<IF Desc THEN 1 ELSE 0>>] /\ res = B!Unit
\* the abstract successor: the property's outcome or the open finding's deviation
\* (filtered by the observed size exactly as the trace validator's ProjOK does)
AbsNext(op, r) == LET S == { o.st : o \in { o \in B!Out(abs, op) \cup B!KFOut(abs, op) : o.res = r } } IN
                  abs' \in { st \in S : size' = Count(t') - st.drift }
DoUpsert(k, v) == LET u == Upsert(t, k, v)  op == [n |-> "upsert", a |-> <<k, v>>] IN
                  /\ t' = u.t /\ size' = size + (IF u.grew THEN 1 ELSE 0)
                  /\ last' = op /\ res' = B!Unit /\ AbsNext(op, B!Unit)
DoDelete(k) == LET d == Delete(t, k)  op == [n |-> "delete", a |-> <<k>>]  r == B!R(d.found, 0, <<>>) IN
               /\ t' = d.t /\ size' = size - 1                 \* b.size-- whatever happened
               /\ last' = op /\ res' = r /\ AbsNext(op, r)
Next == /\ nops < MaxOps /\ nops' = nops + 1
        /\ \E k \in 0..MaxKey : DoDelete(k) \/ \E v \in {1, 2} : DoUpsert(k, v)
Spec == Init /\ [][Next]_vars
\* the concrete step always has an abstract counterpart (AbsNext is part of every action: without one the action is disabled)
Simulates == \A k \in 0..MaxKey : ENABLED DoDelete(k) /\ \A v \in {1, 2} : ENABLED DoUpsert(k, v)
Ordered  == IsSearchTree(t)
IsMap    == /\ Keys(t) = DOMAIN abs.m /\ Count(t) = Cardinality(Keys(t))
            /\ \A k \in 0..MaxKey + 1 : Get(t, k) = (IF k \in DOMAIN abs.m THEN abs.m[k] ELSE -1)
            /\ LET ks == B!KeySeq(abs)  w == Walk(t) IN
               Len(w) = 2 * Len(ks) /\ \A i \in 1..Len(ks) : w[2 * i - 1] = ks[i] /\ w[2 * i] = abs.m[ks[i]]
SizeWithDrift == size = Count(t) - abs.drift
SizeExact     == size = Count(t)
=============================================================================
