--------------------------- MODULE MemoizeImplMC ---------------------------
EXTENDS MemoizeImpl, TLC
Sym == Permutations(Threads)
\* progress at quiescence: when nothing is running no thread waits for ever (every joiner's execution is released)
NoOrphanWait == (\A t \in Threads : pc[t] \in {"idle", "wait"}) => \A t \in Threads : pc[t] = "idle" \/ ENABLED Wake(t)
=============================================================================
