----------------------------- MODULE HeapArrayMC -----------------------------
EXTENDS HeapArray, TLC
CONSTANTS Vals, MaxLen, MaxOps, Fixed, OpenKF
VARIABLES a, c, last, nops
vars == <<a, c, last, nops>>
H == INSTANCE Heap

Init == a = <<>> /\ c \in {"lt", "gt"} /\ last = [n |-> "new", v |-> 0, r |-> 0] /\ nops = 0
Next == /\ nops < MaxOps /\ nops' = nops + 1
        /\ \/ \E v \in Vals : Len(a) < MaxLen /\ a' = Push(a, c, v) /\ c' = c /\ last' = [n |-> "push", v |-> v, r |-> 0]
           \/ a # <<>> /\ a' = PopArr(a, c) /\ c' = c /\ last' = [n |-> "pop", v |-> 0, r |-> a[1]]
           \/ \E v \in Vals : (\E i \in 1..Len(a) : a[i] = v) /\ c' = c /\ last' = [n |-> "delete", v |-> v, r |-> 0]
                              /\ a' = IF Fixed THEN DeleteFixed(a, c, v) ELSE DeleteArr(a, c, v)
           \/ c' = (IF c = "lt" THEN "gt" ELSE "lt") /\ a' = Heapify(a, c', (Len(a) \div 2)) /\ last' = [n |-> "convert", v |-> 0, r |-> 0]
Spec == Init /\ [][Next]_vars

IsOrdered == Ordered(a, c)
\* every step is an outcome of the property-level spec on the multiset
Refines == [][ LET s  == [b |-> H!Asc(a), c |-> c]
                   s1 == [b |-> H!Asc(a'), c |-> c']
                   op == CASE last'.n = "push" -> [n |-> "push", a |-> <<last'.v>>]
                           [] last'.n = "pop" -> [n |-> "pop", a |-> <<>>]
                           [] last'.n = "delete" -> [n |-> "delete", a |-> <<last'.v>>]
                           [] last'.n = "convert" -> [n |-> "convert", a |-> <<IF c' = "lt" THEN 0 ELSE 1>>]
               IN  \E o \in H!OutF(s, op) : o.st = s1 /\ (last'.n = "pop" => o.res.v = last'.r) ]_vars
=============================================================================
