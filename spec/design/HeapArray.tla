------------------------------ MODULE HeapArray ------------------------------
(***************************************************************************)
(* Design-level model of heap.Heap (heap/heap.go): the array and the sift  *)
(* algorithms exactly as written - moveUp, moveDown, the bottom-up         *)
(* heapify of FromSlice/Convert, and Delete WITH its open defect KF-C03-1  *)
(* (after swapping the value with the last slot it re-sifts from the ROOT  *)
(* instead of from the vacated slot, and never upwards).  DeleteFixed is   *)
(* what a repair would do.  (DESIGN.md section 8.)                         *)
(*                                                                         *)
(* TLC checks (HeapArrayMC):                                               *)
(*   Ordered        the array is a heap for the current comparator after   *)
(*                  every operation - holds with DeleteFixed, FAILS with   *)
(*                  Delete as written (the finding, at design level)       *)
(*   Refines        every step is an outcome of the property-level         *)
(*                  Heap!OutF on the multiset of the array - holds for     *)
(*                  both (the defect is latent: the step itself looks      *)
(*                  right, which is why KF-C03-1 is a taint trigger)       *)
(* and HeapArrayTrace binds the model to the recordings of the real heap:  *)
(* the layout GetValues() shows after every call is compared with the      *)
(* model's array (informational: no listed property pins the layout).      *)
(***************************************************************************)
EXTENDS Integers, Sequences, FiniteSets

Cmp(c, x, y) == CASE c = "lt"  -> x < y
                  [] c = "gt"  -> x > y
                  [] c = "key" -> (x \div 10) < (y \div 10)
CmpName(i) == CASE i = 0 -> "lt" [] i = 1 -> "gt" [] i = 2 -> "key"

Swap(a, i, j) == [a EXCEPT ![i] = a[j], ![j] = a[i]]

\* 1-based: children of i are 2i and 2i+1, the parent is i \div 2
RECURSIVE MoveDown(_, _, _, _)
MoveDown(a, c, n, i) ==
    LET l == 2 * i  r == 2 * i + 1
        c1 == IF l <= n /\ Cmp(c, a[l], a[i]) THEN l ELSE i
        c2 == IF r <= n /\ Cmp(c, a[r], a[c1]) THEN r ELSE c1
    IN  IF c2 = i THEN a ELSE MoveDown(Swap(a, i, c2), c, n, c2)

RECURSIVE MoveUp(_, _, _)
MoveUp(a, c, i) == IF i <= 1 \/ ~Cmp(c, a[i], a[i \div 2]) THEN a ELSE MoveUp(Swap(a, i, i \div 2), c, i \div 2)

RECURSIVE Heapify(_, _, _)
Heapify(a, c, i) == IF i < 1 THEN a ELSE Heapify(MoveDown(a, c, Len(a), i), c, i - 1)

Push(a, c, v) == MoveUp(Append(a, v), c, Len(a) + 1)
Front(a) == SubSeq(a, 1, Len(a) - 1)
\* Pop: the root is replaced by the last element, the slice shrinks, the root is sifted down
PopArr(a, c) == LET n == Len(a) - 1 IN IF n = 0 THEN <<>> ELSE MoveDown(Front([a EXCEPT ![1] = a[n + 1]]), c, n, 1)
First(a, v) == CHOOSE i \in 1..Len(a) : a[i] = v /\ \A j \in 1..i - 1 : a[j] # v
\* Delete as written: swap with the last slot, shrink, re-sift FROM THE ROOT
DeleteArr(a, c, v) == LET i == First(a, v)  b == Front(Swap(a, i, Len(a))) IN
                      IF b = <<>> THEN b ELSE MoveDown(b, c, Len(b), 1)
\* what a repair does: re-sift from the vacated slot, down and up
DeleteFixed(a, c, v) == LET i == First(a, v)  b == Front(Swap(a, i, Len(a))) IN
                        IF i > Len(b) THEN b ELSE MoveUp(MoveDown(b, c, Len(b), i), c, i)
RECURSIVE PushAll(_, _, _)
PushAll(a, c, q) == IF q = <<>> THEN a ELSE PushAll(Push(a, c, Head(q)), c, Tail(q))

Ordered(a, c) == \A i \in 2..Len(a) : ~Cmp(c, a[i], a[i \div 2])
=============================================================================
