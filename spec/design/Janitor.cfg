SPECIFICATION Spec
CONSTANTS
  Keys = {1, 2}
  Intv = 3
  MaxNow = 12
  Lifetimes = {0, 1, 2, 5}
INVARIANTS MustBound
PROPERTY OnlyExpired
CHECK_DEADLOCK FALSE
