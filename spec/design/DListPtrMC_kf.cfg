SPECIFICATION Spec
CONSTANTS
  MaxOps = 3
  OldUnshift = TRUE
  OpenKF = {}
INVARIANT Links
PROPERTY Refines
CHECK_DEADLOCK FALSE
