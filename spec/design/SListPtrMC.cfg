SPECIFICATION Spec
CONSTANTS
  MaxOps = 5
  OpenKF = {}
INVARIANT NonEmpty
PROPERTY Refines
CHECK_DEADLOCK FALSE
