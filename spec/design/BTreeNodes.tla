------------------------------ MODULE BTreeNodes ------------------------------
(***************************************************************************)
(* Design-level model of btree.BTree (btree/btree.go): Sedgewick's B-tree  *)
(* with at most 4 entries per node.  A full node is split into two halves, *)
(* a split of the root adds a level, Remove only marks the entry (a        *)
(* tombstone), re-putting a removed key revives it in place.               *)
(* (DESIGN.md section 8.)                                                  *)
(*                                                                         *)
(* A node is [es |-> <<entry, ...>>]; an entry is [k, v, rm, next]: in a   *)
(* leaf (height 0) next is the empty node, in an internal node v and rm    *)
(* are unused and k is the smallest key of the subtree below.              *)
(*                                                                         *)
(* BTreeNodesMC checks, for EVERY order of puts and removes over a small   *)
(* key set, that the model refines the ordered map of BTree.tla (Get,      *)
(* Traverse, Size) and that 2^height <= max(1, distinct keys ever put) -   *)
(* the clause of C10 that is about the algorithm rather than about one     *)
(* execution.  BTreeNodesTrace compares the model's height with the height *)
(* the real tree reports after every recorded call (informational).        *)
(***************************************************************************)
EXTENDS Integers, Sequences, FiniteSets

Nil == [es |-> <<>>]
Leaf(k, v, rm) == [k |-> k, v |-> v, rm |-> rm, next |-> Nil]
Link(n)        == [k |-> n.es[1].k, v |-> 0, rm |-> FALSE, next |-> n]
T0 == [root |-> Nil, n |-> 0, h |-> 0]

InsAt(q, j, e) == SubSeq(q, 1, j - 1) \o <<e>> \o SubSeq(q, j, Len(q))          \* e becomes q'[j]
\* a node that has reached 4 entries is split into two halves
Finish(es) == IF Len(es) < 4 THEN [n |-> [es |-> es], split |-> FALSE, u |-> Nil]
              ELSE [n |-> [es |-> SubSeq(es, 1, 2)], split |-> TRUE, u |-> [es |-> SubSeq(es, 3, 4)]]
\* the child to descend into: the last entry whose successor's key is not above the key
Child(es, k) == CHOOSE j \in 1..Len(es) : (j = Len(es) \/ k < es[j + 1].k) /\ \A i \in 1..j - 1 : ~(i = Len(es) \/ k < es[i + 1].k)

RECURSIVE Ins(_, _, _, _, _)
Ins(nd, h, k, v, rm) ==
    IF h = 0 THEN
      IF \E j \in 1..Len(nd.es) : nd.es[j].k = k
        THEN LET j == CHOOSE j \in 1..Len(nd.es) : nd.es[j].k = k IN
             [n |-> [es |-> [nd.es EXCEPT ![j] = Leaf(k, v, rm)]], split |-> FALSE, u |-> Nil]
        ELSE LET j == 1 + Cardinality({ i \in 1..Len(nd.es) : nd.es[i].k < k }) IN
             Finish(InsAt(nd.es, j, Leaf(k, v, rm)))
    ELSE LET j == Child(nd.es, k)
             r == Ins(nd.es[j].next, h - 1, k, v, rm)
             es1 == [nd.es EXCEPT ![j].next = r.n]
         IN  IF ~r.split THEN [n |-> [es |-> es1], split |-> FALSE, u |-> Nil]
             ELSE Finish(InsAt(es1, j + 1, Link(r.u)))

RECURSIVE Search(_, _, _)
Search(nd, h, k) ==
    IF nd.es = <<>> THEN [ok |-> FALSE, v |-> 0]
    ELSE IF h = 0 THEN
      IF \E j \in 1..Len(nd.es) : nd.es[j].k = k /\ ~nd.es[j].rm
        THEN [ok |-> TRUE, v |-> nd.es[CHOOSE j \in 1..Len(nd.es) : nd.es[j].k = k].v]
        ELSE [ok |-> FALSE, v |-> 0]
    ELSE Search(nd.es[Child(nd.es, k)].next, h - 1, k)

Put(t, k, v) ==
    LET found == Search(t.root, t.h, k).ok
        r     == Ins(t.root, t.h, k, v, FALSE)
        n1    == IF found THEN t.n ELSE t.n + 1
    IN  IF ~r.split THEN [root |-> r.n, n |-> n1, h |-> t.h]
        ELSE [root |-> [es |-> << Link(r.n), Link(r.u) >>], n |-> n1, h |-> t.h + 1]
Remove(t, k) ==
    LET s == Search(t.root, t.h, k) IN
    IF ~s.ok THEN t ELSE [root |-> Ins(t.root, t.h, k, s.v, TRUE).n, n |-> t.n - 1, h |-> t.h]

RECURSIVE Walk(_, _)
\* the live entries in traversal order, as <<k1, v1, k2, v2, ...>>
Walk(nd, h) ==
    IF nd.es = <<>> THEN <<>>
    ELSE IF h = 0 THEN
      LET F[i \in 0..Len(nd.es)] == IF i = 0 THEN <<>> ELSE F[i - 1] \o (IF nd.es[i].rm THEN <<>> ELSE <<nd.es[i].k, nd.es[i].v>>) IN F[Len(nd.es)]
    ELSE LET F[i \in 0..Len(nd.es)] == IF i = 0 THEN <<>> ELSE F[i - 1] \o Walk(nd.es[i].next, h - 1) IN F[Len(nd.es)]
=============================================================================
