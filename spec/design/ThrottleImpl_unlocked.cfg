SPECIFICATION Spec
CONSTANTS
  Threads = {1, 2}
  Per = 3
  Trailing = TRUE
  MaxNow = 7
  MaxCalls = 3
  EarlyGrant = FALSE
  LockedTimer = FALSE
INVARIANTS Spacing NoLostWakeup CancelWakes Mutex
CHECK_DEADLOCK FALSE
