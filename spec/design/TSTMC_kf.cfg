SPECIFICATION Spec
CONSTANTS
  Alpha = {97, 98, 200}
  MaxLen = 2
  MaxOps = 3
  NoValidCheck = TRUE
INVARIANT IsMap
CHECK_DEADLOCK FALSE
