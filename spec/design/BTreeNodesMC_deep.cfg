SPECIFICATION Spec
CONSTANTS
  Keys = {1, 2, 3, 4, 5, 6, 7}
  MaxOps = 8
  PutsOnly = FALSE
INVARIANTS HeightBound IsMap
CHECK_DEADLOCK FALSE
