----------------------------- MODULE LinkedQS -----------------------------
(***************************************************************************)
(* Design-level model of the linked queue and the linked stack             *)
(* (queue/lqueue.go, stack/lstack.go) as written: each is a doubly linked  *)
(* list that can never be empty (list/dlist.go; the sequence meaning of    *)
(* its operations is List.tla / DListPtr.tla) plus an element counter `n`  *)
(* that alone says whether the first node is an element or a left-over.    *)
(*                                                                         *)
(*   LQueue  NewLinked(v): list <<v>>, n = 1                               *)
(*           Enqueue(v):  n = 0 -> overwrite the left-over node, n = 1     *)
(*                        else Append, n++                                 *)
(*           Dequeue():   n = 0 -> zero value; else Shift (which with one  *)
(*                        node left removes nothing and zeroes it), n--    *)
(*           Peek = First, Search = n > 0 /\ Find, Size = n,               *)
(*           Clear: n = 0, drop all nodes behind the first, zero it        *)
(*   LStack  Push(v): Append, n++                                          *)
(*           Pop():   DList.Pop unlinks the last node and hands back a     *)
(*                    copy of the node BEFORE it (one node: unlinks        *)
(*                    nothing, hands back a zero node); n-- unless 0       *)
(*           Peek = Last, Search = Find, Size = n                          *)
(*                                                                         *)
(* `ideal` is the queue / stack the property speaks of (Queue.tla,         *)
(* Stack.tla), updated by the sequence meaning of each call; `res` is what *)
(* the code returns, `want` what the ideal object returns.                 *)
(* TLC checks for every call sequence to the depth bound, the zero value   *)
(* among the values:                                                       *)
(*   Refines   n = Len(ideal), and when n > 0 the list IS the ideal        *)
(*             sequence; when n = 0 the list is one left-over node         *)
(*   Answers   every call returned what the ideal object returns          *)
(* Both hold for the queue (LinkedQS_q.cfg) - in particular across drain   *)
(* and refill, the left-over node is never handed out.  For the stack      *)
(* (LinkedQS_s.cfg, expected to FAIL) `Answers` breaks at the first Pop of *)
(* a two-element stack: the open finding KF-C06-1 at design level; with    *)
(* FixedPop = TRUE (Pop hands back the node it unlinks, and the last       *)
(* element is forgotten by the counter alone, Peek/Search guarded by n)    *)
(* both hold - the shape a repair would have.                              *)
(***************************************************************************)
EXTENDS Integers, Sequences
CONSTANTS Kind, Vals, MaxOps, FixedPop
VARIABLES q, n, ideal, res, want, nops
vars == <<q, n, ideal, res, want, nops>>

Front(s) == SubSeq(s, 1, Len(s) - 1)
In(s, x) == \E i \in 1..Len(s) : s[i] = x
B(b)     == IF b THEN 1 ELSE 0

Init == \E v \in Vals : /\ q = <<v>> /\ n = 1 /\ ideal = <<v>> /\ res = 0 /\ want = 0 /\ nops = 0
Step == nops < MaxOps /\ nops' = nops + 1

\* ---- queue
Enq(v) == /\ Step /\ ideal' = Append(ideal, v) /\ res' = 0 /\ want' = 0
          /\ IF n = 0 THEN q' = <<v>> \o Tail(q) /\ n' = 1 ELSE q' = Append(q, v) /\ n' = n + 1
Deq    == /\ Step
          /\ want' = IF ideal = <<>> THEN 0 ELSE Head(ideal)
          /\ ideal' = IF ideal = <<>> THEN ideal ELSE Tail(ideal)
          /\ IF n = 0 THEN res' = 0 /\ UNCHANGED <<q, n>>
             ELSE /\ res' = q[1] /\ n' = n - 1
                  /\ q' = IF Len(q) = 1 THEN <<0>> ELSE Tail(q)
QPeek  == /\ Step /\ res' = q[1] /\ want' = (IF ideal = <<>> THEN 0 ELSE Head(ideal)) /\ UNCHANGED <<q, n, ideal>>
QSearch(v) == /\ Step /\ res' = B(n > 0 /\ In(q, v)) /\ want' = B(In(ideal, v)) /\ UNCHANGED <<q, n, ideal>>
QClear == /\ Step /\ n' = 0 /\ q' = <<0>> /\ ideal' = <<>> /\ res' = 0 /\ want' = 0
\* ---- stack
Push(v) == /\ Step /\ ideal' = Append(ideal, v) /\ res' = 0 /\ want' = 0
           /\ IF FixedPop /\ n = 0 THEN q' = <<v>> /\ n' = 1 ELSE q' = Append(q, v) /\ n' = n + 1
Pop     == /\ Step
           /\ want' = IF ideal = <<>> THEN 0 ELSE ideal[Len(ideal)]
           /\ ideal' = IF ideal = <<>> THEN ideal ELSE Front(ideal)
           /\ n' = IF n > 0 THEN n - 1 ELSE 0
           /\ IF FixedPop
                THEN IF n = 0 THEN res' = 0 /\ q' = q
                     ELSE res' = q[Len(q)] /\ q' = IF Len(q) = 1 THEN <<0>> ELSE Front(q)
                ELSE IF Len(q) >= 2 THEN res' = q[Len(q) - 1] /\ q' = Front(q)
                     ELSE res' = 0 /\ q' = q
SPeek   == /\ Step /\ res' = (IF FixedPop /\ n = 0 THEN 0 ELSE q[Len(q)])
           /\ want' = (IF ideal = <<>> THEN 0 ELSE ideal[Len(ideal)]) /\ UNCHANGED <<q, n, ideal>>
SSearch(v) == /\ Step /\ res' = B((~FixedPop \/ n > 0) /\ In(q, v)) /\ want' = B(In(ideal, v)) /\ UNCHANGED <<q, n, ideal>>
Size    == /\ Step /\ res' = n /\ want' = Len(ideal) /\ UNCHANGED <<q, n, ideal>>

Next == IF Kind = "lq"
          THEN (\E v \in Vals : Enq(v) \/ QSearch(v)) \/ Deq \/ QPeek \/ QClear \/ Size
          ELSE (\E v \in Vals : Push(v) \/ SSearch(v)) \/ Pop \/ SPeek \/ Size
Spec == Init /\ [][Next]_vars

Refines == /\ n = Len(ideal)
           /\ IF n > 0 THEN q = ideal ELSE Len(q) = 1
Answers == res = want
=============================================================================
