SPECIFICATION Spec
CONSTANTS
  Threads = {t1, t2}
  Keys = {1}
  Exp = 0
  MaxExec = 2
  MaxNow = 0
  MaxCalls = 2
  Variant = "noflight"
SYMMETRY Sym
INVARIANTS OneInFlight ErrorsNotCached OwnKey NoRecompute NoStrayWait NoOrphanWait
CHECK_DEADLOCK FALSE
