SPECIFICATION Spec
CONSTANTS
  Keys = {0, 1, 2, 3}
  Caps = {1, 2, 3}
  MaxOps = 6
  OldYoungest = TRUE
INVARIANT Structure
PROPERTY Refines
CHECK_DEADLOCK FALSE
