---------------------------- MODULE BsTreeNodes ----------------------------
(***************************************************************************)
(* Design-level model of bstree.BsTree (bstree/bstree.go): the node tree   *)
(* and the recursive upsert / delete / min / get / traverse as written,    *)
(* together with the size counter.  A tree is <<>> or [k, v, l, r];        *)
(* Cmp(a, b) is gogu.Compare with the tree's comparator: keys for which    *)
(* Cmp(key, n.k) = 1 go LEFT - with the comparator < the left subtree      *)
(* holds the smaller keys, with > the larger ones, and min() (the leftmost *)
(* node of the right subtree) is the in-order successor either way.        *)
(*                                                                         *)
(* BsTreeNodesMC checks over every sequence of upserts and deletes that    *)
(* the tree stays a search tree for its comparator, that the in-order walk *)
(* and get are the ordered map of BsTree.tla, and that the size counter is *)
(* the number of nodes MINUS the number of deletes of absent keys - the    *)
(* open finding KF-C04-1 reproduced at design level (Delete as written     *)
(* decrements unconditionally); without the finding in OpenKF the model has no abstract counterpart for such a delete (Simulates fails).      *)
(***************************************************************************)
EXTENDS Integers, Sequences, FiniteSets
CONSTANT Desc   \* FALSE: comparator <, TRUE: comparator >

Comp(a, b) == IF Desc THEN a > b ELSE a < b
Cmp(a, b)  == IF Comp(a, b) THEN 1 ELSE IF Comp(b, a) THEN -1 ELSE 0
Leaf       == <<>>
Nd(k, v, l, r) == [k |-> k, v |-> v, l |-> l, r |-> r]

RECURSIVE Upsert(_, _, _), Delete(_, _), Min(_), Get(_, _), Walk(_), Keys(_), Count(_)
\* returns [t, grew]
Upsert(n, k, v) ==
    IF n = Leaf THEN [t |-> Nd(k, v, Leaf, Leaf), grew |-> TRUE]
    ELSE IF Cmp(k, n.k) = 1 THEN LET u == Upsert(n.l, k, v) IN [t |-> [n EXCEPT !.l = u.t], grew |-> u.grew]
    ELSE IF Cmp(k, n.k) = -1 THEN LET u == Upsert(n.r, k, v) IN [t |-> [n EXCEPT !.r = u.t], grew |-> u.grew]
    ELSE [t |-> [n EXCEPT !.v = v], grew |-> FALSE]
Min(n) == IF n.l = Leaf THEN n ELSE Min(n.l)
\* returns [t, found]
Delete(n, k) ==
    IF n = Leaf THEN [t |-> Leaf, found |-> FALSE]
    ELSE IF Cmp(k, n.k) = 1 THEN LET d == Delete(n.l, k) IN [t |-> [n EXCEPT !.l = d.t], found |-> d.found]
    ELSE IF Cmp(k, n.k) = -1 THEN LET d == Delete(n.r, k) IN [t |-> [n EXCEPT !.r = d.t], found |-> d.found]
    ELSE IF n.l = Leaf /\ n.r = Leaf THEN [t |-> Leaf, found |-> TRUE]
    ELSE IF n.r = Leaf THEN [t |-> n.l, found |-> TRUE]
    ELSE IF n.l = Leaf THEN [t |-> n.r, found |-> TRUE]
    ELSE LET m == Min(n.r)  d == Delete(n.r, m.k) IN
         [t |-> Nd(m.k, m.v, n.l, d.t), found |-> d.found]
Get(n, k) == IF n = Leaf THEN -1
             ELSE IF Cmp(k, n.k) = 1 THEN Get(n.l, k) ELSE IF Cmp(k, n.k) = -1 THEN Get(n.r, k) ELSE n.v
Walk(n)  == IF n = Leaf THEN <<>> ELSE Walk(n.l) \o <<n.k, n.v>> \o Walk(n.r)
Keys(n)  == IF n = Leaf THEN {} ELSE Keys(n.l) \cup {n.k} \cup Keys(n.r)
Count(n) == IF n = Leaf THEN 0 ELSE Count(n.l) + 1 + Count(n.r)

RECURSIVE IsSearchTree(_)
IsSearchTree(n) == n = Leaf \/ ( /\ \A x \in Keys(n.l) : Cmp(x, n.k) = 1
                                /\ \A x \in Keys(n.r) : Cmp(x, n.k) = -1
                                /\ IsSearchTree(n.l) /\ IsSearchTree(n.r) )
=============================================================================
