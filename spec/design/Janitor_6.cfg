SPECIFICATION Spec
CONSTANTS
  Keys = {1, 2}
  Intv = 6
  MaxNow = 20
  Lifetimes = {0, 1, 2, 5}
INVARIANTS MustBound
PROPERTY OnlyExpired
CHECK_DEADLOCK FALSE
