SPECIFICATION Spec
CONSTANTS
  Callers = {1, 2, 3}
  W = 3
  MaxNow = 7
  MaxTimers = 4
  MaxCancels = 2
  Late = 1
  WithLock = TRUE
  StopOld = TRUE
INVARIANTS NotEarly OneArmed RunsSpaced QuietAfterCancel NoLostRun
PROPERTY EventuallyRuns
CHECK_DEADLOCK FALSE
