SPECIFICATION Spec
CONSTANTS
  Kind = "lq"
  Vals = {0, 1, 2}
  MaxOps = 7
  FixedPop = FALSE
INVARIANTS Refines Answers
CHECK_DEADLOCK FALSE
