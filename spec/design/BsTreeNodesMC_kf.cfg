SPECIFICATION Spec
CONSTANTS
  Desc = FALSE
  MaxKey = 2
  MaxOps = 3
  OpenKF = {}
INVARIANTS Ordered IsMap SizeWithDrift Simulates
CHECK_DEADLOCK FALSE
