SPECIFICATION Spec
CONSTANTS
  MaxOps = 6
  OldUnshift = FALSE
  OpenKF = {}
INVARIANT Links
PROPERTY Refines
CHECK_DEADLOCK FALSE
