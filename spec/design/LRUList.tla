------------------------------- MODULE LRUList -------------------------------
(***************************************************************************)
(* Design-level model of cache.LRUCache (cache/lrucache.go): the map from  *)
(* keys to list nodes and the circular doubly linked eviction list with a  *)
(* sentinel root, pointer by pointer as the code manipulates them.  Nodes  *)
(* are numbers, 0 is the sentinel.  (DESIGN.md section 8.)                 *)
(*                                                                         *)
(* LRUListMC checks that every operation of this model is an outcome of    *)
(* the property-level LRU!Out on the abstraction (keys in list order from  *)
(* the front, their values, the capacity), and that the structure stays    *)
(* well formed: next/prev are inverse, the list reached from the sentinel  *)
(* has exactly len nodes, and the map holds exactly the listed nodes.      *)
(***************************************************************************)
EXTENDS Integers, Sequences, FiniteSets, TLC
CONSTANT OldYoungest   \* TRUE: RemoveYoungest as it was before the repair 85ccfda (unlinks the OLDEST list node)

\* state: [nx, pv : node -> node; key, val : node -> Int; len; items : key -> node; size; fresh]
New(size) == [nx |-> (0 :> 0), pv |-> (0 :> 0), key |-> (0 :> 0), val |-> (0 :> 0), len |-> 0,
              items |-> [k \in {} |-> 0], size |-> size, fresh |-> 1]

Upd(f, x, v) == [y \in DOMAIN f \cup {x} |-> IF y = x THEN v ELSE f[y]]
Del(f, x)    == [y \in DOMAIN f \ {x} |-> f[y]]

\* moveAfter(current, nd): unlink nd, then link it behind current - the assignments in the order of the code
MoveAfter(s, cur, nd) ==
    IF cur = nd THEN s
    ELSE LET s1 == [s  EXCEPT !.nx = Upd(@, s.pv[nd], s.nx[nd])]         \* nd.prev.next = nd.next
             s2 == [s1 EXCEPT !.pv = Upd(@, s1.nx[nd], s1.pv[nd])]       \* nd.next.prev = nd.prev
             s3 == [s2 EXCEPT !.pv = Upd(@, nd, cur)]                    \* nd.prev = current
             s4 == [s3 EXCEPT !.nx = Upd(@, nd, s3.nx[cur])]             \* nd.next = current.next
             s5 == [s4 EXCEPT !.nx = Upd(@, s4.pv[nd], nd)]              \* nd.prev.next = nd
         IN  [s5 EXCEPT !.pv = Upd(@, s5.nx[nd], nd)]                    \* nd.next.prev = nd
MoveFront(s, nd) == MoveAfter(s, 0, nd)

AddFront(s, k, v) ==
    LET n == s.fresh
        s1 == [s EXCEPT !.pv = Upd(@, n, 0), !.nx = Upd(@, n, s.nx[0]), !.key = Upd(@, n, k), !.val = Upd(@, n, v),
                        !.fresh = @ + 1]
        s2 == [s1 EXCEPT !.pv = Upd(@, s1.nx[0], n)]                     \* current.next.prev = &newNode
    IN  [s2 EXCEPT !.nx = Upd(@, 0, n), !.len = @ + 1]                   \* current.next = &newNode; len++
Remove(s, nd) == IF nd = 0 THEN s
                 ELSE [s EXCEPT !.pv = Upd(@, s.nx[nd], s.pv[nd]), !.nx = Upd(@, s.pv[nd], s.nx[nd]), !.len = @ - 1]
Last(s)  == s.pv[0]
First(s) == s.nx[0]

R(ok, v, q) == [ok |-> ok, v |-> v, s |-> q, p |-> FALSE]
None        == R(FALSE, 0, <<0, 0>>)
D(st, res)  == [st |-> st, res |-> res]

RemoveOldest(s) == LET it == Last(s) IN
                   IF it = 0 THEN D(s, None)
                   ELSE D(Remove([s EXCEPT !.items = Del(@, s.key[it])], it), R(TRUE, 0, <<s.key[it], s.val[it]>>))
Do(s, op) ==
    CASE op.n = "add" -> LET k == op.a[1]  v == op.a[2] IN
                         IF k \in DOMAIN s.items
                           THEN D([MoveFront(s, s.items[k]) EXCEPT !.val = Upd(@, s.items[k], v)], None)
                           ELSE LET s1 == AddFront(s, k, v)
                                    s2 == [s1 EXCEPT !.items = Upd(@, k, s.fresh)]
                                IN  IF s2.len > s2.size THEN RemoveOldest(s2) ELSE D(s2, None)
      [] op.n = "get" -> IF op.a[1] \in DOMAIN s.items
                           THEN D(MoveFront(s, s.items[op.a[1]]), R(TRUE, s.val[s.items[op.a[1]]], <<>>))
                           ELSE D(s, R(FALSE, 0, <<>>))
      [] op.n = "getoldest" -> LET it == Last(s) IN
                               IF it = 0 THEN D(s, None) ELSE D(MoveFront(s, it), R(TRUE, 0, <<s.key[it], s.val[it]>>))
      [] op.n = "remove" -> IF op.a[1] \in DOMAIN s.items
                              THEN LET it == s.items[op.a[1]] IN D(Remove([s EXCEPT !.items = Del(@, op.a[1])], it), R(TRUE, s.val[it], <<>>))
                              ELSE D(s, R(FALSE, 0, <<>>))
      [] op.n = "removeoldest" -> RemoveOldest(s)
      [] op.n = "removeyoungest" -> LET it == First(s) IN
                                    IF it = 0 THEN D(s, None)
                                    ELSE D(Remove([s EXCEPT !.items = Del(@, s.key[it])], IF OldYoungest THEN Last(s) ELSE it),
                                           R(TRUE, 0, <<s.key[it], s.val[it]>>))
      [] op.n = "flush" -> D([New(s.size) EXCEPT !.fresh = s.fresh], R(TRUE, 0, <<>>))

\* the keys in list order from the front (bounded walk)
RECURSIVE Walk(_, _, _)
Walk(s, n, fuel) == IF n = 0 \/ fuel = 0 THEN <<>> ELSE <<n>> \o Walk(s, s.nx[n], fuel - 1)
Nodes(s) == Walk(s, s.nx[0], 64)
Abs(s) == [order |-> [i \in 1..Len(Nodes(s)) |-> s.key[Nodes(s)[i]]],
           val   |-> [k \in { s.key[Nodes(s)[i]] : i \in 1..Len(Nodes(s)) } |->
                        s.val[CHOOSE n \in { Nodes(s)[i] : i \in 1..Len(Nodes(s)) } : s.key[n] = k]],
           cap   |-> s.size]
WellFormed(s) ==
    LET ns == Nodes(s)  S == { ns[i] : i \in 1..Len(ns) } IN
    /\ Len(ns) = s.len /\ Cardinality(S) = Len(ns) /\ 0 \notin S
    /\ \A n \in S \cup {0} : s.pv[s.nx[n]] = n /\ s.nx[s.pv[n]] = n
    /\ { s.items[k] : k \in DOMAIN s.items } = S /\ \A k \in DOMAIN s.items : s.key[s.items[k]] = k
    /\ s.len <= s.size
=============================================================================
