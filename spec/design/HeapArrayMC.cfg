SPECIFICATION Spec
CONSTANTS
  Vals = {1, 2, 3, 4}
  MaxLen = 6
  MaxOps = 8
  Fixed = TRUE
  OpenKF = {}
INVARIANT IsOrdered
PROPERTY Refines
CHECK_DEADLOCK FALSE
