------------------------------ MODULE SListPtr ------------------------------
(***************************************************************************)
(* Design-level model of list.SList (list/slist.go): the pointer graph of  *)
(* the singly linked list whose first node lives BY VALUE inside the       *)
(* struct.  Memory maps addresses to nodes [v, nx]; address 0 is the       *)
(* embedded node, -1 is nil, every newNode and every escaping local copy   *)
(* is a fresh address.  The operations are the assignments of the code in  *)
(* their order; two of them are worth the model:                           *)
(*   Unshift   copies the embedded node out to a fresh address and makes   *)
(*             the new node's CONTENTS the embedded node;                  *)
(*   Delete    of a middle node overwrites that node with the contents of  *)
(*             its successor (the assignment through prev.next): the       *)
(*             successor's                                                 *)
(*             own memory becomes unreachable - a handle to it, obtained   *)
(*             earlier, no longer names a node of the list (the property   *)
(*             only speaks of handles obtained from Find immediately       *)
(*             before use, and for those this is invisible).               *)
(* SListPtrMC checks that every edit is an outcome of List!Out on the      *)
(* sequence of values reached from address 0.                              *)
(***************************************************************************)
EXTENDS Integers, Sequences, FiniteSets, TLC

NIL == -1
Nd(v, nx) == [v |-> v, nx |-> nx]
Set(M, a, n) == [x \in DOMAIN M \cup {a} |-> IF x = a THEN n ELSE M[x]]
New(v) == [M |-> (0 :> Nd(v, NIL)), fresh |-> 1]

RECURSIVE Chain(_, _, _)
Chain(M, a, fuel) == IF a = NIL \/ fuel = 0 THEN <<>> ELSE <<a>> \o Chain(M, M[a].nx, fuel - 1)
Addrs(s)  == Chain(s.M, 0, 64)
Values(s) == [i \in 1..Len(Addrs(s)) |-> s.M[Addrs(s)[i]].v]
Find(s, x) == LET as == Addrs(s)  I == { i \in 1..Len(as) : s.M[as[i]].v = x } IN
              IF I = {} THEN NIL ELSE as[CHOOSE i \in I : \A j \in I : i <= j]

SUnshift(s, v) == LET H == s.fresh IN                       \* firstNode := l.SingleNode; newNode.next = &firstNode
    [M |-> Set(Set(s.M, H, s.M[0]), 0, Nd(v, H)), fresh |-> s.fresh + 1]     \* l.SingleNode = *newNode
SAppend(s, v) == LET A == s.fresh  as == Addrs(s)  p == as[Len(as)] IN
    [M |-> Set(Set(s.M, A, Nd(v, NIL)), p, [s.M[p] EXCEPT !.nx = A]), fresh |-> s.fresh + 1]
SInsertAfter(s, node, v) == LET A == s.fresh IN
    [M |-> Set(Set(s.M, A, Nd(v, s.M[node].nx)), node, [s.M[node] EXCEPT !.nx = A]), fresh |-> s.fresh + 1]
SReplace(s, node, v) == [s EXCEPT !.M = Set(@, node, [@[node] EXCEPT !.v = v])]
SPop(s) == LET as == Addrs(s) IN
           IF Len(as) = 1 THEN s ELSE [s EXCEPT !.M = Set(@, as[Len(as) - 1], [@[as[Len(as) - 1]] EXCEPT !.nx = NIL])]
SShift(s) == IF s.M[0].nx = NIL THEN s ELSE [s EXCEPT !.M = Set(@, 0, @[@[0].nx])]   \* l.SingleNode = *head.next
\* node # 0 is in the list (found by value and identical to the node reached by walking)
SDelete(s, node) ==
    IF node = 0 THEN [s EXCEPT !.M = Set(@, 0, @[@[0].nx])]
    ELSE IF s.M[node].nx = NIL THEN SPop(s)
    ELSE [s EXCEPT !.M = Set(@, node, @[@[node].nx])]       \* the assignment through prev.next
=============================================================================
