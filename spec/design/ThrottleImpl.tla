----------------------------- MODULE ThrottleImpl -----------------------------
(***************************************************************************)
(* Design-level model of gogu's throttler (func.go) as it is after the     *)
(* repair 87aefa9 - one action per critical section, Cond.Wait in the two  *)
(* steps sync.Cond takes (join the notify list while still holding L, then *)
(* sleep), timers as explicit pending broadcasts - checked by TLC against  *)
(* the wording of C20 for every interleaving of two Next threads with      *)
(* arbitrary Call / Cancel / clock steps (DESIGN.md section 8).            *)
(*                                                                         *)
(* Variants (constants):                                                   *)
(*   EarlyGrant = TRUE   Next's loop is the ORIGINAL `for !waiting &&      *)
(*                       !stop`: a trailing trigger stored inside the      *)
(*                       period is handed out at once -> Spacing fails     *)
(*   LockedTimer = FALSE the timer callback broadcasts WITHOUT taking L    *)
(*                       (as the original did): together with the repaired *)
(*                       loop a wake-up can fall between a thread's check  *)
(*                       and its joining the notify list -> NoLostWakeup   *)
(*                       fails.  This is why the repair also wraps the     *)
(*                       callback in Lock/Unlock.                          *)
(***************************************************************************)
EXTENDS Integers, Sequences, FiniteSets, TLC
CONSTANTS Threads, Per, Trailing, MaxNow, MaxCalls, EarlyGrant, LockedTimer
VARIABLES now, last, waiting, stop, holder, timers, notify, pc, grants, calls
vars == <<now, last, waiting, stop, holder, timers, notify, pc, grants, calls>>
\* last = -1: the zero time; holder = 0: L is free, "s": the script side, else a thread
\* pc[t]: "out" | "want" | "in" (holds L, at the loop test) | "join" (decided to wait, still holds L)
\*        | "asleep" | "woken" (must re-acquire L) | "true" | "false"

Init == /\ now = 0 /\ last = -1 /\ waiting = FALSE /\ stop = FALSE /\ holder = 0 /\ timers = {} /\ notify = {}
        /\ pc = [t \in Threads |-> "out"] /\ grants = <<>> /\ calls = 0

Since == IF last < 0 THEN Per + 1 ELSE now - last
Broadcast == /\ pc' = [t \in Threads |-> IF t \in notify THEN "woken" ELSE pc[t]] /\ notify' = {}

\* Call(): one critical section
Call == /\ holder = 0 /\ calls < MaxCalls /\ calls' = calls + 1
        /\ IF ~waiting /\ ~stop
             THEN IF Since > Per
                    THEN waiting' = TRUE /\ Broadcast /\ UNCHANGED timers
                    ELSE IF Trailing THEN /\ waiting' = TRUE /\ timers' = timers \cup {now + (Per - Since)}
                                          /\ UNCHANGED <<pc, notify>>
                    ELSE UNCHANGED <<waiting, timers, pc, notify>>
             ELSE UNCHANGED <<waiting, timers, pc, notify>>
        /\ UNCHANGED <<now, last, stop, holder, grants>>
Cancel == /\ holder = 0 /\ ~stop /\ stop' = TRUE /\ Broadcast
          /\ UNCHANGED <<now, last, waiting, holder, timers, grants, calls>>
\* the AfterFunc callback: with LockedTimer it needs L, otherwise it can run at any moment
Fire == \E d \in timers : /\ d <= now /\ (LockedTimer => holder = 0) /\ timers' = timers \ {d} /\ Broadcast
                          /\ UNCHANGED <<now, last, waiting, stop, holder, grants, calls>>
\* time passes only when nothing is overdue
Tick == /\ now < MaxNow /\ (\A d \in timers : d > now) /\ now' = now + 1
        /\ UNCHANGED <<last, waiting, stop, holder, timers, notify, pc, grants, calls>>

Enter(t) == /\ pc[t] = "out" /\ pc' = [pc EXCEPT ![t] = "want"]
            /\ UNCHANGED <<now, last, waiting, stop, holder, timers, notify, grants, calls>>
Acquire(t) == /\ pc[t] \in {"want", "woken"} /\ holder = 0 /\ holder' = t /\ pc' = [pc EXCEPT ![t] = "in"]
              /\ UNCHANGED <<now, last, waiting, stop, timers, notify, grants, calls>>
MustWait == IF EarlyGrant THEN ~waiting /\ ~stop
            ELSE ~stop /\ (~waiting \/ Since < Per)
\* the loop test while holding L
Test(t) == /\ pc[t] = "in" /\ holder = t
           /\ IF MustWait
                THEN pc' = [pc EXCEPT ![t] = "join"] /\ UNCHANGED <<last, waiting, holder, grants>>
                ELSE /\ holder' = 0
                     /\ IF ~stop THEN /\ waiting' = FALSE /\ last' = now /\ grants' = Append(grants, now)
                                      /\ pc' = [pc EXCEPT ![t] = "true"]
                        ELSE /\ pc' = [pc EXCEPT ![t] = "false"] /\ UNCHANGED <<waiting, last, grants>>
           /\ UNCHANGED <<now, stop, timers, notify, calls>>
\* Cond.Wait: join the notify list and release L in one step (notifyListAdd happens before Unlock)
Join(t) == /\ pc[t] = "join" /\ notify' = notify \cup {t} /\ holder' = 0 /\ pc' = [pc EXCEPT ![t] = "asleep"]
           /\ UNCHANGED <<now, last, waiting, stop, timers, grants, calls>>

Next == Call \/ Cancel \/ Fire \/ Tick \/ \E t \in Threads : Enter(t) \/ Acquire(t) \/ Test(t) \/ Join(t)
Spec == Init /\ [][Next]_vars

\* at most one permission per period
Spacing == \A i \in 1..Len(grants) - 1 : grants[i + 1] - grants[i] >= Per
\* a parked thread is never left behind: if a trigger is stored, the period is over, nobody has cancelled and
\* no broadcast is pending, then nobody is asleep (nothing else would ever wake it)
NoLostWakeup == (waiting /\ ~stop /\ Since >= Per /\ timers = {} /\ holder = 0
                 /\ \A t \in Threads : pc[t] \notin {"want", "woken", "in", "join"})
                => \A t \in Threads : pc[t] # "asleep"
\* after Cancel nobody stays parked
CancelWakes == stop => notify = {}
\* L is a mutex
Mutex == holder \in {0} \cup Threads
=============================================================================
