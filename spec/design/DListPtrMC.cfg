SPECIFICATION Spec
CONSTANTS
  MaxOps = 5
  OldUnshift = FALSE
  OpenKF = {}
INVARIANT Links
PROPERTY Refines
CHECK_DEADLOCK FALSE
