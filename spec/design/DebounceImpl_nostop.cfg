SPECIFICATION Spec
CONSTANTS
  Callers = {1, 2}
  W = 2
  MaxNow = 5
  MaxTimers = 3
  MaxCancels = 2
  Late = 1
  WithLock = TRUE
  StopOld = FALSE
INVARIANTS NotEarly OneArmed RunsSpaced QuietAfterCancel NoLostRun
CHECK_DEADLOCK FALSE
