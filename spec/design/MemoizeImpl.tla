---------------------------- MODULE MemoizeImpl ----------------------------
(***************************************************************************)
(* Design-level model of Memoizer.Memoize (memoize.go) on top of           *)
(* singleflight.Group.Do and cache.Cache, one action per critical section: *)
(*                                                                         *)
(*   Lookup    m.Cache.Get(key) under the cache's read lock                *)
(*   Enter     g.mu.Lock: the call registered for the key is joined        *)
(*             (c.dups++, then c.wg.Wait) or a new call is registered      *)
(*   FnStart / FnEnd   the supplied function runs outside every lock       *)
(*   Store     m.Cache.SetDefault(key, v): insert-if-absent-or-expired     *)
(*             under the cache's write lock (errors are not stored)        *)
(*   Leave     the deferred part of doCall: g.mu.Lock, c.wg.Done,          *)
(*             delete(g.m, key) - joiners wake with the call's outcome     *)
(*   Return                                                                *)
(*   Tick      the clock advances; an entry stored at s expires after      *)
(*             s + Exp (Exp = 0: never)                                    *)
(*                                                                         *)
(* Checked by TLC (MemoizeImplMC): at no instant two executions for one    *)
(* key; joiners receive the outcome of the execution they joined, which    *)
(* overlapped their call; errors are never cached; a caller whose key had  *)
(* a live cached value during its whole call never computes; keys do not   *)
(* interfere.  Variants (negative controls): Variant = "noflight" - Enter   *)
(* does not look for a registered call; "early" - Leave unregisters the    *)
(* call before the function has run (Forget-like).                         *)
(***************************************************************************)
EXTENDS Integers, Sequences, FiniteSets
CONSTANTS Threads, Keys, Exp, MaxExec, MaxNow, MaxCalls, Variant
VARIABLES pc, key, cache, flights, now, nexec, myexec, out, execs, live, ncalls

vars == <<pc, key, cache, flights, now, nexec, myexec, out, execs, live, ncalls>>
\* cache[k]   = <<>> or <<[v, dl]>>          flights[k] = 0 or the execution registered for k
\* execs[e]   = [k, st, ok, v, leader, from] st \in {"reg", "run", "done"}; from = clock at registration
\* myexec[t]  = the execution t leads or joined;  out[t] = what t is about to return
\* live[t]    = the key of t has had a live cached value ever since t's call began
NoFn == [x \in {} |-> 0]
LiveAt(c, k, n) == c[k] # <<>> /\ (c[k][1].dl = 0 \/ n < c[k][1].dl)

Init == /\ pc = [t \in Threads |-> "idle"] /\ key = [t \in Threads |-> CHOOSE k \in Keys : TRUE]
        /\ cache = [k \in Keys |-> <<>>] /\ flights = [k \in Keys |-> 0]
        /\ now = 0 /\ nexec = 0 /\ myexec = [t \in Threads |-> 0] /\ out = [t \in Threads |-> <<>>]
        /\ execs = NoFn /\ live = [t \in Threads |-> FALSE] /\ ncalls = 0

Track(c, n) == live' = [t \in Threads |-> pc[t] # "idle" /\ live[t] /\ LiveAt(c, key[t], n)]

Call(t, k) == /\ pc[t] = "idle" /\ ncalls < MaxCalls /\ ncalls' = ncalls + 1 /\ pc' = [pc EXCEPT ![t] = "lookup"] /\ key' = [key EXCEPT ![t] = k]
              /\ live' = [live EXCEPT ![t] = LiveAt(cache, k, now)] /\ out' = [out EXCEPT ![t] = <<>>]
              /\ myexec' = [myexec EXCEPT ![t] = 0]
              /\ UNCHANGED <<cache, flights, now, nexec, execs>>
Lookup(t) == /\ pc[t] = "lookup"
             /\ IF LiveAt(cache, key[t], now)
                  THEN pc' = [pc EXCEPT ![t] = "return"] /\ out' = [out EXCEPT ![t] = <<[ok |-> TRUE, v |-> cache[key[t]][1].v, e |-> 0]>>]
                  ELSE pc' = [pc EXCEPT ![t] = "enter"] /\ UNCHANGED out
             /\ Track(cache, now) /\ UNCHANGED <<key, cache, flights, now, nexec, myexec, execs, ncalls>>
Enter(t) == /\ pc[t] = "enter"
            /\ IF flights[key[t]] # 0 /\ Variant # "noflight"
                 THEN /\ pc' = [pc EXCEPT ![t] = "wait"] /\ myexec' = [myexec EXCEPT ![t] = flights[key[t]]]
                      /\ UNCHANGED <<flights, nexec, execs>>
                 ELSE /\ nexec < MaxExec /\ nexec' = nexec + 1
                      /\ flights' = [flights EXCEPT ![key[t]] = nexec + 1]
                      /\ execs' = [e \in DOMAIN execs \cup {nexec + 1} |->
                                     IF e = nexec + 1 THEN [k |-> key[t], st |-> "reg", ok |-> FALSE, v |-> 0, leader |-> t, from |-> now]
                                     ELSE execs[e]]
                      /\ myexec' = [myexec EXCEPT ![t] = nexec + 1]
                      /\ pc' = [pc EXCEPT ![t] = IF Variant = "early" THEN "leave" ELSE "fn"]
            /\ Track(cache, now) /\ UNCHANGED <<key, cache, now, out, ncalls>>
FnStart(t) == /\ pc[t] = "fn" /\ execs[myexec[t]].st = "reg"
              /\ execs' = [execs EXCEPT ![myexec[t]].st = "run"]
              /\ Track(cache, now) /\ UNCHANGED <<pc, key, cache, flights, now, nexec, myexec, out, ncalls>>
FnEnd(t, ok) == /\ pc[t] = "fn" /\ execs[myexec[t]].st = "run"
                /\ execs' = [execs EXCEPT ![myexec[t]].st = "done", ![myexec[t]].ok = ok,
                                          ![myexec[t]].v = IF ok THEN 100 + myexec[t] ELSE 0]
                /\ pc' = [pc EXCEPT ![t] = IF ok THEN "store" ELSE (IF Variant = "early" THEN "return" ELSE "leave")]
                /\ out' = [out EXCEPT ![t] = <<[ok |-> ok, v |-> IF ok THEN 100 + myexec[t] ELSE 0, e |-> myexec[t]]>>]
                /\ Track(cache, now) /\ UNCHANGED <<key, cache, flights, now, nexec, myexec, ncalls>>
Store(t) == /\ pc[t] = "store"
            /\ cache' = IF LiveAt(cache, key[t], now) THEN cache       \* Set refuses a present, unexpired key
                        ELSE [cache EXCEPT ![key[t]] = <<[v |-> execs[myexec[t]].v, dl |-> IF Exp > 0 THEN now + Exp ELSE 0]>>]
            /\ pc' = [pc EXCEPT ![t] = IF Variant = "early" THEN "return" ELSE "leave"]
            /\ Track(cache', now) /\ UNCHANGED <<key, flights, now, nexec, myexec, out, execs, ncalls>>
Leave(t) == /\ pc[t] = "leave"
            /\ flights' = [flights EXCEPT ![key[t]] = IF @ = myexec[t] THEN 0 ELSE @]
            /\ pc' = [pc EXCEPT ![t] = IF Variant = "early" THEN "fn" ELSE "return"]
            /\ Track(cache, now) /\ UNCHANGED <<key, cache, now, nexec, myexec, out, execs, ncalls>>
\* a joiner wakes once the call it joined has been released (wg.Done in Leave, after the function returned)
Wake(t) == /\ pc[t] = "wait" /\ execs[myexec[t]].st = "done" /\ flights[key[t]] # myexec[t]
           /\ out' = [out EXCEPT ![t] = <<[ok |-> execs[myexec[t]].ok, v |-> execs[myexec[t]].v, e |-> myexec[t]]>>]
           /\ pc' = [pc EXCEPT ![t] = "return"]
           /\ Track(cache, now) /\ UNCHANGED <<key, cache, flights, now, nexec, myexec, execs, ncalls>>
Return(t) == /\ pc[t] = "return" /\ pc' = [pc EXCEPT ![t] = "idle"]
             /\ Track(cache, now) /\ UNCHANGED <<key, cache, flights, now, nexec, myexec, out, execs, ncalls>>
Tick == /\ now < MaxNow /\ now' = now + 1 /\ Track(cache, now + 1)
        /\ UNCHANGED <<pc, key, cache, flights, nexec, myexec, out, execs, ncalls>>

Next == \/ \E t \in Threads : \/ \E k \in Keys : Call(t, k)
                              \/ Lookup(t) \/ Enter(t) \/ FnStart(t) \/ Store(t) \/ Leave(t) \/ Wake(t) \/ Return(t)
                              \/ \E ok \in BOOLEAN : FnEnd(t, ok)
        \/ Tick
Spec == Init /\ [][Next]_vars

Running(k) == { e \in DOMAIN execs : execs[e].k = k /\ execs[e].st = "run" }
OneInFlight == \A k \in Keys : Cardinality(Running(k)) <= 1
ErrorsNotCached == \A k \in Keys : cache[k] # <<>> =>
                     \E e \in DOMAIN execs : execs[e].k = k /\ execs[e].st = "done" /\ execs[e].ok /\ execs[e].v = cache[k][1].v
\* what a caller is about to return was produced for ITS key; a cached value comes from a successful execution
OwnKey == \A t \in Threads : out[t] # <<>> =>
            LET o == out[t][1] IN
            IF o.e = 0 THEN \E e \in DOMAIN execs : execs[e].k = key[t] /\ execs[e].ok /\ execs[e].v = o.v
            ELSE execs[o.e].k = key[t] /\ execs[o.e].st = "done" /\ execs[o.e].ok = o.ok /\ execs[o.e].v = o.v
\* (everybody who joined one execution gets the same outcome: by OwnKey each gets THE outcome recorded for it)
\* a caller during whose whole call the key's cached value was live never runs the function
NoRecompute == \A t \in Threads : pc[t] = "fn" /\ execs[myexec[t]].st = "run" => ~live[t]
\* a waiting thread is waiting for an execution of its own key that is still registered or already done
NoStrayWait == \A t \in Threads : pc[t] = "wait" => execs[myexec[t]].k = key[t]
=============================================================================
