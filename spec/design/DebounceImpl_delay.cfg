SPECIFICATION Spec
CONSTANTS
  Callers = {1}
  W = 3
  MaxNow = 5
  MaxTimers = 1
  MaxCancels = 1
  Late = 1
  WithLock = TRUE
  StopOld = TRUE
INVARIANTS NotEarly OneArmed RunsSpaced QuietAfterCancel NoLostRun
PROPERTY EventuallyRuns
CHECK_DEADLOCK FALSE
