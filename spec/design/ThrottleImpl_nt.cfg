SPECIFICATION Spec
CONSTANTS
  Threads = {1, 2}
  Per = 3
  Trailing = FALSE
  MaxNow = 7
  MaxCalls = 3
  EarlyGrant = FALSE
  LockedTimer = TRUE
INVARIANTS Spacing NoLostWakeup CancelWakes Mutex
CHECK_DEADLOCK FALSE
