// Package tt is the tree-trace recorder shared by all sequential drivers
// (DESIGN.md section 4.1, Appendix A.1).
//
// A driver describes a system under test (Sys: apply an operation to the real
// gogu object, project its observable state) and an operation alphabet. The
// explorer enumerates the operation tree breadth first, re-executing each
// node's prefix on a fresh instance, and writes one ndjson line per node:
//
//	{"op":{"n":..,"a":[..]},"res":{..},"proj":{..},"kids":[line numbers]}
//
// Line 1 is the synthetic root. The TLA+ module spec/common/TraceTree.tla
// walks that file.
package tt

import (
	"bufio"
	"encoding/json"
	"fmt"
	"math/rand"
	"os"
	"runtime/debug"
	"sync"
	"sync/atomic"
	"time"
)

// Op is one operation: a name and fixed-type integer arguments.
type Op struct {
	N string `json:"n"`
	A []int  `json:"a"`
	// pure-helper calls only (Appendix A.2): named callback, list arguments
	// (one entry per slice/string/map argument), nested argument.
	F string  `json:"f,omitempty"`
	L [][]int `json:"l,omitempty"`
	X any     `json:"x,omitempty"`
	// NP: in a linear recording the instance is NOT observed after this call (no projection), so that
	// stretches of calls run without any query in between; the flag travels with the path, a
	// re-execution observes at the same places.
	NP bool `json:"np,omitempty"`
}

// Res is the uniformly typed result of an operation (DESIGN 3.3): an ok
// flag, an int payload, a sequence payload and "panicked".
type Res struct {
	Ok bool  `json:"ok"`
	V  int   `json:"v"`
	S  []int `json:"s"`
	P  bool  `json:"p"`
	H  *HRes `json:"h,omitempty"` // pure-helper calls only
}

// HRes carries the structured part of a helper's result: list of lists
// (chunks, matrices, maps as sorted [k,v] pairs, groups), the callback
// invocation log, and whether an error was returned.
type HRes struct {
	LL  [][]int `json:"ll"`
	Log []int   `json:"log"`
	E   bool    `json:"e"`
}

// Sys is one instance of the system under test.
type Sys interface {
	// Do applies op to the real object. It may panic; the recorder recovers.
	Do(op Op) Res
	// Proj observes the state through side-effect free public observers.
	// It must recover its own panics and report them inside the value.
	Proj() any
}

// Node is one recorded line.
type Node struct {
	Op   Op    `json:"op"`
	Res  Res   `json:"res"`
	Proj any   `json:"proj"`
	Kids []int `json:"kids"`
}

// Explorer describes an operation tree.
type Explorer struct {
	New func() Sys
	// Ops returns the operations to try at the node reached by path
	// (len(path) = depth; depth 0 is the synthetic root, whose children are
	// the constructor operations). A nil result makes the node a leaf.
	Ops func(path []Op) []Op
	// Term returns terminal (destructive) observations recorded as extra
	// leaf children of the node reached by path. May be nil.
	Term func(path []Op) []Op
	// ZeroProj is the projection recorded for the root and for nodes whose
	// operation panicked (the object is not observed after a panic).
	ZeroProj any
	// SplitDepth is the depth at which subtrees are dealt to shards.
	SplitDepth int
}

// Stats summarises one exploration.
type Stats struct {
	Nodes    int      // recorded nodes over all shards, shared ancestors counted once
	Leaves   int      // root-to-leaf paths
	Panics   int      // operations that panicked
	Files    []string // one trace file per shard
	PerShard []int    // lines per shard file (including the root line)
	Samples  []string // a few recorded root-to-leaf paths, written out
}

func nz(s []int) []int {
	if s == nil {
		return []int{}
	}
	return s
}

// Exec runs op on s, recovering a panic into Res.P.
func Exec(s Sys, op Op) (r Res) {
	defer func() {
		if e := recover(); e != nil {
			_ = debug.Stack
			r = Res{P: true, S: []int{}}
		}
	}()
	r = s.Do(op)
	r.S = nz(r.S)
	if r.H != nil {
		if r.H.LL == nil {
			r.H.LL = [][]int{}
		}
		for i := range r.H.LL {
			r.H.LL[i] = nz(r.H.LL[i])
		}
		r.H.Log = nz(r.H.Log)
	}
	return r
}

// CrumbOn makes the recorders leave a breadcrumb - the operation path being executed right now - next to
// each trace file (<file>.crumb).  Some failures of the code under test kill the whole process (a stack
// overflow in a structure that has become cyclic, "concurrent map writes"): the orchestrator then re-executes
// the breadcrumb paths one by one in fresh processes to find the one that dies again.
var CrumbOn = true

func crumbTree(file string, path []Op) {
	if !CrumbOn {
		return
	}
	b, _ := json.Marshal(path)
	os.WriteFile(file+".crumb", b, 0o644)
}

// Hung is set once an operation of the code under test did not return within
// seven times Watchdog (an endless loop, e.g. over a list that has become cyclic). The
// operation is recorded as panicked - no specification allows that outcome -,
// its goroutine is abandoned, and explorers stop expanding so that the run
// ends promptly.
var (
	Hung     atomic.Bool
	Watchdog = 10 * time.Second
)

// guarded runs f on its own goroutine and reports whether it returned in time.
func guarded(f func()) bool {
	done := make(chan struct{})
	go func() {
		defer close(done)
		f()
	}()
	t := time.NewTimer(Watchdog)
	defer t.Stop()
	select {
	case <-done:
		return true
	case <-t.C:
	}
	// no answer in time: an endless loop, or a machine so loaded that the process did not get to run
	// (seen once: six of twelve shard processes stalled for more than ten seconds at the same moment
	// while a dozen other checks were running).  Grant six more periods before deciding.
	for i := 0; i < 6; i++ {
		t2 := time.NewTimer(Watchdog)
		select {
		case <-done:
			t2.Stop()
			return true
		case <-t2.C:
		}
	}
	Hung.Store(true)
	return false
}

// Safe runs f and reports whether it panicked.
func Safe(f func()) (panicked bool) {
	defer func() {
		if e := recover(); e != nil {
			panicked = true
		}
	}()
	f()
	return false
}

// Replay executes path on a fresh instance and returns the record of the
// last operation (result and projection).
func (e *Explorer) Replay(path []Op) (Res, any) {
	var r Res
	var pr any
	if !guarded(func() { r, pr = e.replay(path) }) {
		return Res{P: true, S: []int{}}, e.ZeroProj
	}
	return r, pr
}

func (e *Explorer) replay(path []Op) (Res, any) {
	s := e.New()
	var r Res
	for i, op := range path {
		r = Exec(s, op)
		if r.P && i < len(path)-1 {
			return r, e.ZeroProj
		}
	}
	if r.P {
		return r, e.ZeroProj
	}
	return r, s.Proj()
}

type pnode struct {
	path []Op
	res  Res
	proj any
	term bool
	id   int
}

// Explore writes the tree into `shards` files named prefix.<i>.ndjson.
func (e *Explorer) Explore(prefix string, shards int) (*Stats, error) {
	if shards < 1 || e.SplitDepth <= 0 {
		shards = 1
	}
	st := &Stats{PerShard: make([]int, shards)}
	var mu sync.Mutex
	var wg sync.WaitGroup
	errs := make([]error, shards)
	shared := 0
	for sh := 0; sh < shards; sh++ {
		st.Files = append(st.Files, fmt.Sprintf("%s.%d.ndjson", prefix, sh))
	}
	for sh := 0; sh < shards; sh++ {
		wg.Add(1)
		go func(sh int) {
			defer wg.Done()
			n, leaves, panics, sharedAnc, samples, err := e.exploreShard(st.Files[sh], sh, shards)
			mu.Lock()
			defer mu.Unlock()
			errs[sh] = err
			st.PerShard[sh] = n
			st.Nodes += n - sharedAnc
			st.Leaves += leaves
			st.Panics += panics
			shared = sharedAnc
			if sh == 0 {
				st.Samples = samples
			}
		}(sh)
	}
	wg.Wait()
	for _, err := range errs {
		if err != nil {
			return nil, err
		}
	}
	st.Nodes += shared // the ancestors above the split depth, once
	return st, nil
}

// ExploreShard writes only shard `shard` of `shards` (process-level sharding for
// drivers that own process-global state such as the virtual clock).
func (e *Explorer) ExploreShard(prefix string, shard, shards int) (*Stats, error) {
	file := fmt.Sprintf("%s.%d.ndjson", prefix, shard)
	n, leaves, panics, sharedAnc, samples, err := e.exploreShard(file, shard, shards)
	if err != nil {
		return nil, err
	}
	st := &Stats{Files: []string{file}, PerShard: []int{n}, Leaves: leaves, Panics: panics, Samples: samples}
	st.Nodes = n - sharedAnc
	if shard == 0 {
		st.Nodes = n
	}
	return st, nil
}

func (e *Explorer) exploreShard(file string, shard, shards int) (lines, leaves, panics, sharedAnc int, samples []string, err error) {
	f, err := os.Create(file)
	if err != nil {
		return
	}
	defer f.Close()
	w := bufio.NewWriterSize(f, 1<<20)
	defer w.Flush()
	enc := json.NewEncoder(w)

	level := []*pnode{{path: nil, res: Res{S: []int{}}, proj: e.ZeroProj, id: 1}}
	next := 2
	depth := 0
	unit := 0
	for len(level) > 0 {
		var nl []*pnode
		for _, nd := range level {
			var kids []int
			if !nd.term && !nd.res.P && !Hung.Load() {
				ops := e.Ops(nd.path)
				var terms []Op
				if e.Term != nil && len(nd.path) > 0 {
					terms = e.Term(nd.path)
				}
				for i, op := range append(append([]Op{}, ops...), terms...) {
					isTerm := i >= len(ops)
					if depth+1 == e.SplitDepth && !isTerm {
						unit++
						if (unit-1)%shards != shard {
							continue
						}
					}
					if depth+1 <= e.SplitDepth && isTerm && shard != 0 {
						continue // terminal children of shared ancestors live in shard 0 only
					}
					p := make([]Op, len(nd.path)+1)
					copy(p, nd.path)
					p[len(nd.path)] = op
					crumbTree(file, p)
					r, pr := e.Replay(p)
					c := &pnode{path: p, res: r, proj: pr, term: isTerm, id: next}
					next++
					kids = append(kids, c.id)
					nl = append(nl, c)
					if r.P {
						panics++
					}
				}
			}
			if len(kids) == 0 && len(nd.path) > 0 {
				leaves++
				if len(samples) < 3 && shard == 0 {
					b, _ := json.Marshal(map[string]any{"path": nd.path, "res": nd.res, "proj": nd.proj})
					samples = append(samples, string(b))
				}
			}
			op := Op{N: "root", A: []int{}}
			if len(nd.path) > 0 {
				op = nd.path[len(nd.path)-1]
			}
			if op.A == nil {
				op.A = []int{}
			}
			if kids == nil {
				kids = []int{}
			}
			if err = enc.Encode(Node{Op: op, Res: nd.res, Proj: nd.proj, Kids: kids}); err != nil {
				return
			}
			lines++
			if depth < e.SplitDepth && !nd.term {
				sharedAnc++
			}
		}
		level = nl
		depth++
	}
	os.Remove(file + ".crumb")
	return
}

// Linear records one long execution (ops produced by gen until it returns
// false) as a chain under the given writer state. Several chains can hang
// under one root: see LinearSet.
type LinearSet struct {
	crumb *os.File
	w     *bufio.Writer
	f     *os.File
	enc   *json.Encoder
	lines [][]byte
	roots []int
	next  int
	zero  any
	// sparse: most calls of the chains recorded into this file are left unobserved (Op.NP)
	sparse *rand.Rand
}

// SparseSeed, when non-zero, makes the linear sets created next sparse (see Op.NP): about 5 of 6
// calls are not followed by an observation.  Observers that memoise, and anything else that only
// shows when no query comes in between two calls, need such stretches.
var SparseSeed int64

// NewLinearSet starts a trace file of linear recordings.
func NewLinearSet(file string, zeroProj any) (*LinearSet, error) {
	f, err := os.Create(file)
	if err != nil {
		return nil, err
	}
	ls := &LinearSet{f: f, w: bufio.NewWriterSize(f, 1<<20), next: 2, zero: zeroProj}
	if SparseSeed != 0 {
		ls.sparse = rand.New(rand.NewSource(SparseSeed))
	}
	if CrumbOn {
		ls.crumb, _ = os.Create(file + ".crumb")
	}
	return ls, nil
}

// Run records one chain: s is a fresh instance; gen yields the next op given
// the step number and previous result, ok=false to stop. full decides
// whether the projection is recorded at that step (otherwise scalarProj is).
func (ls *LinearSet) Run(s Sys, gen func(step int) (Op, bool)) (steps int, panicked bool) {
	first := true
	if ls.crumb != nil { // a new chain: the breadcrumb starts over (one op per line)
		ls.crumb.Truncate(0)
		ls.crumb.Seek(0, 0)
	}
	for step := 0; ; step++ {
		op, ok := gen(step)
		if !ok {
			break
		}
		if ls.sparse != nil && step > 0 && ls.sparse.Intn(6) != 0 {
			op.NP = true
		}
		var r Res
		var pr any = ls.zero
		if Hung.Load() {
			break
		}
		if ls.crumb != nil {
			b, _ := json.Marshal(op)
			ls.crumb.Write(append(b, '\n'))
		}
		if !guarded(func() {
			r = Exec(s, op)
			if !r.P && !op.NP {
				pr = s.Proj()
			}
		}) {
			r, pr = Res{P: true, S: []int{}}, ls.zero
		}
		if op.A == nil {
			op.A = []int{}
		}
		id := ls.next
		ls.next++
		if first {
			ls.roots = append(ls.roots, id)
			first = false
		} else {
			// patch previous line's kids
			ls.lines[len(ls.lines)-1] = append(ls.lines[len(ls.lines)-1], []byte(fmt.Sprintf("%d]}", id))...)
		}
		b, _ := json.Marshal(Node{Op: op, Res: r, Proj: pr, Kids: []int{}})
		// strip the trailing "]}" of kids so that it can be patched
		b = b[:len(b)-2]
		ls.lines = append(ls.lines, b)
		steps++
		if r.P {
			panicked = true
			break
		}
	}
	if !first {
		ls.lines[len(ls.lines)-1] = append(ls.lines[len(ls.lines)-1], []byte("]}")...)
	}
	return
}

// Close writes the file (root line first) and returns the number of lines.
func (ls *LinearSet) Close() (int, error) {
	root, _ := json.Marshal(Node{Op: Op{N: "root", A: []int{}}, Res: Res{S: []int{}}, Proj: ls.zero, Kids: append([]int{}, ls.roots...)})
	ls.w.Write(root)
	ls.w.WriteByte('\n')
	for _, l := range ls.lines {
		ls.w.Write(l)
		ls.w.WriteByte('\n')
	}
	if err := ls.w.Flush(); err != nil {
		return 0, err
	}
	if ls.crumb != nil {
		ls.crumb.Close()
		os.Remove(ls.crumb.Name()) // finished without dying: no breadcrumb needed
	}
	return len(ls.lines) + 1, ls.f.Close()
}

// StarSet records independent calls (pure helpers, Appendix A.2) as the
// children of one root, dealt round-robin to `shards` files.
type StarSet struct {
	files []string
	fs    []*os.File
	ws    []*bufio.Writer
	kids  [][]int
	lines [][][]byte
	n     int
}

// NewStarSet starts prefix.<i>.ndjson for i < shards.
func NewStarSet(prefix string, shards int) (*StarSet, error) {
	if shards < 1 {
		shards = 1
	}
	ss := &StarSet{kids: make([][]int, shards), lines: make([][][]byte, shards)}
	for i := 0; i < shards; i++ {
		ss.files = append(ss.files, fmt.Sprintf("%s.%d.ndjson", prefix, i))
	}
	return ss, nil
}

// Call executes op on s (a stateless dispatcher) and records it.
func (ss *StarSet) Call(s Sys, op Op) Res {
	r := Exec(s, op)
	if r.P {
		r.H = nil
	}
	if op.A == nil {
		op.A = []int{}
	}
	sh := ss.n % len(ss.files)
	ss.n++
	id := len(ss.lines[sh]) + 2
	b, _ := json.Marshal(Node{Op: op, Res: r, Proj: 0, Kids: []int{}})
	ss.lines[sh] = append(ss.lines[sh], b)
	ss.kids[sh] = append(ss.kids[sh], id)
	return r
}

// N is the number of calls recorded so far.
func (ss *StarSet) N() int { return ss.n }

// Close writes the files.
func (ss *StarSet) Close() ([]string, error) {
	for i, f := range ss.files {
		fh, err := os.Create(f)
		if err != nil {
			return nil, err
		}
		w := bufio.NewWriterSize(fh, 1<<20)
		k := ss.kids[i]
		if k == nil {
			k = []int{}
		}
		root, _ := json.Marshal(Node{Op: Op{N: "root", A: []int{}}, Res: Res{S: []int{}}, Proj: 0, Kids: k})
		w.Write(root)
		w.WriteByte('\n')
		for _, l := range ss.lines[i] {
			w.Write(l)
			w.WriteByte('\n')
		}
		if err := w.Flush(); err != nil {
			return nil, err
		}
		fh.Close()
	}
	return ss.files, nil
}

// Trie collects event sequences (one per explored schedule) and writes them as
// a tree-shaped trace: one node per distinct prefix, so the validator examines
// a shared prefix once.
type Trie struct {
	root *trieNode
	n    int
	seqs int
}

type trieNode struct {
	op   Op
	res  Res
	kids map[string]*trieNode
	ord  []string
}

// NewTrie starts an empty trie.
func NewTrie() *Trie {
	return &Trie{root: &trieNode{op: Op{N: "root", A: []int{}}, kids: map[string]*trieNode{}}, n: 1}
}

// NewResTrie is NewTrie; use InsertR to give every event a result.
func NewResTrie() *Trie { return NewTrie() }

// Insert adds one sequence; it reports whether the sequence was new.
func (t *Trie) Insert(seq []Op) bool { return t.InsertR(seq, nil) }

// InsertR adds one sequence of events with their results (rs may be nil).
func (t *Trie) InsertR(seq []Op, rs []Res) bool {
	cur, fresh := t.root, false
	for i, o := range seq {
		if o.A == nil {
			o.A = []int{}
		}
		r := Res{Ok: true, S: []int{}}
		if rs != nil {
			r = rs[i]
			r.S = nz(r.S)
		}
		b, _ := json.Marshal([]any{o, r})
		k := string(b)
		nx, ok := cur.kids[k]
		if !ok {
			nx = &trieNode{op: o, res: r, kids: map[string]*trieNode{}}
			cur.kids[k] = nx
			cur.ord = append(cur.ord, k)
			t.n++
			fresh = true
		}
		cur = nx
	}
	if fresh {
		t.seqs++
	}
	return fresh
}

// Nodes is the number of nodes including the root; Seqs the number of distinct sequences.
func (t *Trie) Nodes() int { return t.n }
func (t *Trie) Seqs() int  { return t.seqs }

// Write emits the trie breadth first as a tree trace.
func (t *Trie) Write(file string) error {
	f, err := os.Create(file)
	if err != nil {
		return err
	}
	defer f.Close()
	w := bufio.NewWriterSize(f, 1<<20)
	defer w.Flush()
	enc := json.NewEncoder(w)
	level := []*trieNode{t.root}
	next := 2
	for len(level) > 0 {
		var nl []*trieNode
		for _, nd := range level {
			kids := []int{}
			for _, k := range nd.ord {
				kids = append(kids, next)
				next++
				nl = append(nl, nd.kids[k])
			}
			if nd.res.S == nil {
				nd.res.S = []int{}
			}
			if err := enc.Encode(Node{Op: nd.op, Res: nd.res, Proj: 0, Kids: kids}); err != nil {
				return err
			}
		}
		level = nl
	}
	return nil
}

// RandomChains records n random walks of the given length through the explorer's operation
// alphabet (the small alphabet of the exhaustive tree, far deeper than the tree can go), each as a
// chain with the full projection after every call and the terminal observation at the end.
func RandomChains(e *Explorer, file string, n, length int, seed int64) (int, error) {
	ls, err := NewLinearSet(file, e.ZeroProj)
	if err != nil {
		return 0, err
	}
	rng := rand.New(rand.NewSource(seed))
	for i := 0; i < n; i++ {
		var path []Op
		done := false
		ls.Run(e.New(), func(step int) (Op, bool) {
			if done {
				return Op{}, false
			}
			if step >= length {
				done = true
				if e.Term != nil && len(path) > 0 {
					if t := e.Term(path); len(t) > 0 {
						return t[0], true
					}
				}
				return Op{}, false
			}
			ops := e.Ops(path)
			if len(ops) == 0 {
				return Op{}, false
			}
			o := ops[rng.Intn(len(ops))]
			path = append(path, o)
			return o, true
		})
	}
	return ls.Close()
}
