module verifharness

go 1.20

require github.com/esimov/gogu v0.0.0

replace github.com/esimov/gogu => ../gogu
