package main

import (
	"math"
	"math/rand"

	"github.com/esimov/gogu/cache"
	"verifharness/tt"
)

// C07: LRUCache[int,int]; the value added is the step number.

type lruProj struct {
	Count int   `json:"count"`
	Y     []int `json:"y"` // GetYoungest: found(0/1), key, value
	PP    bool  `json:"pp"`
}

type lruSys struct {
	c    *cache.LRUCache[int, int]
	keys int
}

func kvb(k, v int, ok bool) tt.Res { return tt.Res{Ok: ok, S: []int{k, v}} }

func (s *lruSys) Do(o tt.Op) tt.Res {
	switch o.N {
	case "new":
		// capacities at the limits of int do not fit the validator's 32-bit integers: +-2000000000 stand for them
		n := o.A[0]
		if n == 2000000000 {
			n = math.MaxInt
		} else if n == -2000000000 {
			n = math.MinInt
		}
		c, err := cache.NewLRU[int, int](n)
		s.c = c
		return tt.Res{Ok: err == nil && c != nil}
	case "add":
		return kvb(s.c.Add(o.A[0], o.A[1]))
	case "get":
		v, ok := s.c.Get(o.A[0])
		return tt.Res{Ok: ok, V: v}
	case "getoldest":
		return kvb(s.c.GetOldest())
	case "remove":
		v, ok := s.c.Remove(o.A[0])
		return tt.Res{Ok: ok, V: v}
	case "removeoldest":
		return kvb(s.c.RemoveOldest())
	case "removeyoungest":
		return kvb(s.c.RemoveYoungest())
	case "flush":
		s.c.Flush()
		return tt.Res{Ok: true}
	case "drain":
		var out []int
		for i := 0; i < 1000; i++ {
			k, v, ok := s.c.RemoveOldest()
			if !ok {
				break
			}
			out = append(out, k, v)
		}
		found := 0
		for k := 0; k < s.keys; k++ {
			if _, ok := s.c.Get(k); ok {
				found++
			}
		}
		return tt.Res{Ok: true, V: found, S: out}
	}
	panic("lru driver: unknown op " + o.N)
}

func (s *lruSys) Proj() any {
	p := lruProj{Y: []int{0, 0, 0}}
	if s.c == nil {
		return p
	}
	p.PP = tt.Safe(func() {
		p.Count = s.c.Count()
		k, v, ok := s.c.GetYoungest()
		p.Y = []int{b2i(ok), k, v}
	})
	return p
}

func lruExplorer(depth int) *tt.Explorer {
	return &tt.Explorer{
		New:      func() tt.Sys { return &lruSys{keys: 6} },
		ZeroProj: lruProj{Y: []int{0, 0, 0}},
		Ops: func(path []tt.Op) []tt.Op {
			if len(path) == 0 {
				return []tt.Op{op("new", 1), op("new", 2), op("new", 3), op("new", 4), op("new", 0), op("new", -1),
					op("new", 2000000000), op("new", -2000000000)}
			}
			capa := path[0].A[0]
			if capa <= 0 {
				return nil // rejected: nothing to operate on
			}
			d := depth
			if capa == 4 {
				d = depth - 1
			}
			if capa > 1000 { // "unbounded": a few keys, one level less
				capa, d = 2, depth-1
			}
			if len(path) > d {
				return nil
			}
			var r []tt.Op
			for k := 0; k <= capa; k++ {
				r = append(r, op("add", k, len(path)), op("get", k), op("remove", k))
			}
			return append(r, op("getoldest"), op("removeoldest"), op("removeyoungest"), op("flush"))
		},
		Term: func(path []tt.Op) []tt.Op {
			if path[0].A[0] <= 0 {
				return nil
			}
			return []tt.Op{op("drain")}
		},
		SplitDepth: 2,
	}
}

func lruLinear(cfg Config, file string, runs, steps int) (int, error) {
	ls, err := tt.NewLinearSet(file, lruProj{Y: []int{0, 0, 0}})
	if err != nil {
		return 0, err
	}
	rng := rand.New(rand.NewSource(cfg.Seed))
	for r := 0; r < runs; r++ {
		capa := []int{5, 16, 64, 2000000000, 2147483647}[r%5]
		keys := capa * 3
		if capa > 1000 {
			keys = 12
		}
		s := &lruSys{keys: keys}
		ls.Run(s, func(st int) (tt.Op, bool) {
			if st == 0 {
				return op("new", capa), true
			}
			if st > steps {
				if st == steps+1 {
					return op("drain"), true
				}
				return tt.Op{}, false
			}
			k := rng.Intn(keys)
			switch x := rng.Intn(100); {
			case x < 45:
				return op("add", k, st), true
			case x < 70:
				return op("get", k), true
			case x < 80:
				return op("remove", k), true
			case x < 86:
				return op("getoldest"), true
			case x < 92:
				return op("removeoldest"), true
			case x < 99:
				return op("removeyoungest"), true
			default:
				return op("flush"), true
			}
		})
	}
	return ls.Close()
}

func init() {
	drivers["lru"] = driver{
		run: func(cfg Config) (*Summary, error) {
			s := &Summary{Extra: map[string]any{}}
			st, err := lruExplorer(cfg.Depth).Explore(cfg.Out+".tree", cfg.Shards)
			if err != nil {
				return nil, err
			}
			s.add(st)
			{ // random walks over the same small alphabet, far deeper than the exhaustive tree
				nch, ln := 600, 12
				if cfg.Tier == "thorough" {
					nch *= 6
				}
				rf := cfg.Out + ".rnd.lin.ndjson"
				rn, err := tt.RandomChains(lruExplorer(ln), rf, nch, ln, cfg.Seed*31+7)
				if err != nil {
					return nil, err
				}
				s.Files = append(s.Files, rf)
				s.Nodes += rn
				s.Leaves += nch
				s.Extra["random_walks"] = nch
			}
			runs, steps := 6, 1500
			if cfg.Tier == "thorough" {
				runs, steps = 24, 8000
			}
			f := cfg.Out + ".lin.ndjson"
			n, err := lruLinear(cfg, f, runs, steps)
			if err != nil {
				return nil, err
			}
			s.Files = append(s.Files, f)
			s.Nodes += n
			s.Leaves += runs
			s.Extra["linear_runs"] = runs
			s.Extra["linear_nodes"] = n
			if err := sparsePass(cfg, s, func(f string) (int, error) {
				return lruLinear(cfg, f, runs, steps)
			}); err != nil {
				return nil, err
			}
			return s, nil
		},
		newSys: func(variant string) (func() tt.Sys, any) {
			keys := 6
			if variant == "lin" {
				keys = 200
			}
			return func() tt.Sys { return &lruSys{keys: keys} }, lruProj{Y: []int{0, 0, 0}}
		},
	}
}
