//go:build vshim

package main

import (
	"time"

	"github.com/esimov/gogu/zzshim/vtime"
)

// C18 on the virtual clock: RetryWithDelay's waits and the lifetime of Once's cache entry are exact.
func init() {
	ccVirtual = true
	ccNow = vtime.Now
	ccUnit = time.Microsecond                // delays such as 900us and 1900us are not whole milliseconds
	ccEnable = func() { vtime.Enable(true) } // auto-advance: a wait moves the clock itself
	ccTick = func(d int) { vtime.Advance(time.Duration(d) * time.Microsecond) }
}
