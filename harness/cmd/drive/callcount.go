package main

import (
	"errors"
	"fmt"
	"time"

	"github.com/esimov/gogu"
	"github.com/esimov/gogu/cache"
	"verifharness/tt"
)

// C18: After / Before / Once / Retry.  The callback counts its invocations and returns its number.

type ccSys struct {
	kind string
	n    int
	c    *cache.Cache[string, int]
	cnt  int
	off  int // the callback returns its invocation number + off (off = -1: the first result is the zero value)
}

// clock used for the stamps; the vshim build replaces these by the virtual clock (callcount_v.go)
var (
	ccNow    = time.Now
	ccUnit   = time.Microsecond
	ccEnable = func() {}
	ccTick   = func(d int) { time.Sleep(time.Duration(d) * time.Microsecond) }
)

type codeErr int

func (e codeErr) Error() string { return fmt.Sprintf("attempt %d failed", int(e)) }

func retryArgs(a []int) (n int, fails func(i int) bool) {
	p := a[1:]
	return a[0], func(i int) bool { return i > len(p) || p[i-1] == 1 }
}

func (s *ccSys) Do(o tt.Op) tt.Res {
	switch o.N {
	case "after_new", "before_new", "once_new":
		s.kind = o.N[:len(o.N)-4]
		if len(o.A) > 0 {
			s.n = o.A[0]
		}
		if len(o.A) > 1 {
			s.off = o.A[1]
		}
		ccEnable()
		// a fresh cache, one per sequence; its entries never expire unless a lifetime is given (a[2])
		exp := cache.NoExpiration
		if len(o.A) > 2 && o.A[2] > 0 {
			exp = time.Duration(o.A[2]) * ccUnit
		}
		s.c = cache.New[string, int](exp, 0)
		return tt.Res{Ok: true}
	case "tick":
		ccTick(o.A[0])
		return tt.Res{Ok: true}
	case "call":
		before := s.cnt
		fn := func() int { s.cnt++; return s.cnt + s.off }
		v := 0
		switch s.kind {
		case "after":
			gogu.After(&s.n, func() { s.cnt++ })
		case "before":
			v = gogu.Before(&s.n, s.c, fn)
		case "once":
			v = gogu.Once[string, int, int](s.c, fn)
		}
		return tt.Res{Ok: true, V: v, S: []int{s.cnt - before}}
	case "retry":
		n, fails := retryArgs(o.A)
		inv := 0
		att, err := gogu.RType[int]{Input: 7}.Retry(n, func(in int) error {
			inv++
			if inv > 1000 {
				panic("callback invoked more than 1000 times")
			}
			if in != 7 {
				panic("input not passed through")
			}
			if fails(inv) {
				return codeErr(inv)
			}
			return nil
		})
		code := 0
		var ce codeErr
		if errors.As(err, &ce) {
			code = int(ce)
		}
		return tt.Res{Ok: err == nil, V: att, S: []int{inv, code}}
	case "retrydelay":
		n, fails := retryArgs(append([]int{o.A[0]}, o.A[2:]...))
		d := time.Duration(o.A[1]) * ccUnit
		inv := 0
		var stamps []time.Time
		ccEnable()
		_, att, err := gogu.RType[int]{Input: 7}.RetryWithDelay(n, d, func(_ time.Duration, in int) error {
			stamps = append(stamps, ccNow())
			inv++
			if inv > 1000 {
				panic("callback invoked more than 1000 times")
			}
			if fails(inv) {
				return codeErr(inv)
			}
			return nil
		})
		minGap := 1 << 30
		for i := 1; i < len(stamps); i++ {
			if g := int(stamps[i].Sub(stamps[i-1]) / ccUnit); g < minGap {
				minGap = g
			}
		}
		return tt.Res{Ok: err == nil, V: att, S: []int{inv, 0, minGap}}
	case "retrydelayc":
		// the callback itself takes time: c1 units the first attempt, c every later one (virtual clock only);
		// the wait between the END of a failed attempt and the START of the next one is what is measured
		n, fails := retryArgs(append([]int{o.A[0]}, o.A[4:]...))
		d := time.Duration(o.A[1]) * ccUnit
		inv := 0
		var starts, ends []time.Time
		ccEnable()
		_, att, err := gogu.RType[int]{Input: 7}.RetryWithDelay(n, d, func(_ time.Duration, in int) error {
			starts = append(starts, ccNow())
			inv++
			if inv > 1000 {
				panic("callback invoked more than 1000 times")
			}
			if inv == 1 {
				ccTick(o.A[2])
			} else {
				ccTick(o.A[3])
			}
			ends = append(ends, ccNow())
			if fails(inv) {
				return codeErr(inv)
			}
			return nil
		})
		minGap := 1 << 30
		for i := 1; i < len(starts); i++ {
			if g := int(starts[i].Sub(ends[i-1]) / ccUnit); g < minGap {
				minGap = g
			}
		}
		return tt.Res{Ok: err == nil, V: att, S: []int{inv, 0, minGap}}
	}
	panic("callcount driver: unknown op " + o.N)
}

func (s *ccSys) Proj() any { return 0 }

// ccVirtual: the harness was built against the scratch copy whose `time` is the virtual clock
var ccVirtual = false

func init() {
	drivers["callcount"] = driver{
		run: func(cfg Config) (*Summary, error) {
			f := cfg.Out + ".lin.ndjson"
			ls, err := tt.NewLinearSet(f, 0)
			if err != nil {
				return nil, err
			}
			chains := 0
			chain := func(ops ...tt.Op) {
				chains++
				ls.Run(&ccSys{}, func(step int) (tt.Op, bool) {
					if step >= len(ops) {
						return tt.Op{}, false
					}
					return ops[step], true
				})
			}
			for n := -2; n <= 8; n++ {
				for _, k := range []string{"after_new", "before_new"} {
					for _, off := range []int{0, -1} {
						ops := []tt.Op{op(k, n, off)}
						for i := 0; i < 12; i++ {
							ops = append(ops, op("call"))
						}
						chain(ops...)
					}
				}
			}
			// Once: the first result may be the zero value; with a lifetime the entry expires between calls
			for _, off := range []int{0, -1} {
				once := []tt.Op{op("once_new", 0, off)}
				for i := 0; i < 8; i++ {
					once = append(once, op("call"))
				}
				chain(once...)
				if ccVirtual {
					for _, gaps := range [][]int{{1, 1, 1, 1, 1, 1, 1, 1}, {2, 2, 2, 3, 1, 6, 1, 1}, {4, 1, 5, 0, 0, 7, 3, 3}, {6, 6, 6, 0, 0, 0, 9, 1}} {
						exp := []tt.Op{op("once_new", 0, off, 5)}
						for _, g := range gaps {
							exp = append(exp, op("call"))
							if g > 0 {
								exp = append(exp, op("tick", g))
							}
						}
						chain(exp...)
					}
				}
			}
			maxLen := 6
			if cfg.Tier == "thorough" {
				maxLen = 8
			}
			for n := -2; n <= 8; n++ {
				for l := 0; l <= maxLen; l++ {
					for code := 0; code < 1<<l; code++ {
						a := []int{n}
						for i := 0; i < l; i++ {
							a = append(a, (code>>i)&1)
						}
						chain(op("retry", a...))
					}
				}
			}
			delays := []int{1500}
			if ccVirtual {
				delays = []int{0, 1, 900, 1500, 1900}
			}
			for n := -1; n <= 4; n++ {
				for _, d := range delays {
					for _, p := range [][]int{{}, {1, 1, 0}, {1, 0}, {0}, {1, 1, 1, 1, 1}} {
						chain(op("retrydelay", append([]int{n, d}, p...)...))
					}
				}
			}
			if ccVirtual {
				// attempts that take time themselves: shorter than, equal to and several times the delay
				for n := 1; n <= 4; n++ {
					for _, d := range []int{0, 900, 1500} {
						for _, c := range [][2]int{{100, 100}, {900, 0}, {4000, 0}, {0, 2000}, {1500, 1500}, {5000, 100}} {
							for _, p := range [][]int{{}, {1, 1, 0}, {1, 0}, {1, 1, 1, 1, 1}} {
								chain(op("retrydelayc", append([]int{n, d, c[0], c[1]}, p...)...))
							}
						}
					}
				}
			}
			lines, err := ls.Close()
			if err != nil {
				return nil, err
			}
			return &Summary{Files: []string{f}, Nodes: lines, Leaves: chains, Samples: []string{}}, nil
		},
		newSys: func(variant string) (func() tt.Sys, any) {
			return func() tt.Sys { return &ccSys{} }, 0
		},
	}
}
