package main

import (
	"math/rand"
	"sort"

	"github.com/esimov/gogu/heap"
	"verifharness/tt"
)

// C03: binary heap.  Comparators by index: 0 "<", 1 ">", 2 by key (v/10).

var heapCmps = []func(a, b int) bool{
	func(a, b int) bool { return a < b },
	func(a, b int) bool { return a > b },
	func(a, b int) bool { return a/10 < b/10 },
}

type heapProj struct {
	Size  int   `json:"size"`
	Empty bool  `json:"empty"`
	Peek  int   `json:"peek"`
	Vals  []int `json:"vals"` // GetValues() as a multiset: ascending
	Lay   []int `json:"lay"`  // GetValues() as returned (layout; informational + taint trigger)
	PP    bool  `json:"pp"`
}

type heapSys struct {
	prev *heap.Heap[int] // the receiver of the last Merge / Meld (the driver goes on with the result)
	h    *heap.Heap[int]
	c    int
}

func asc(v []int) []int {
	o := append([]int{}, v...)
	sort.Ints(o)
	return o
}

func (s *heapSys) Do(o tt.Op) tt.Res {
	switch o.N {
	case "new":
		s.c = o.A[0]
		s.h = heap.NewHeap(heapCmps[s.c])
		return tt.Res{Ok: true}
	case "fromslice":
		s.c = o.A[0]
		in := []int{}
		for _, v := range o.A[1:] {
			if v != -7 { // -7 marks a shallow root (see heapExplorer)
				in = append(in, v)
			}
		}
		s.h = heap.FromSlice(in, heapCmps[s.c])
		return tt.Res{Ok: true}
	case "push":
		s.h.Push(o.A[0])
		return tt.Res{Ok: true}
	case "pushn": // one variadic Push of the whole batch
		s.h.Push(o.A...)
		return tt.Res{Ok: true}
	case "pop":
		return tt.Res{Ok: true, V: s.h.Pop()}
	case "delete":
		ok, err := s.h.Delete(o.A[0])
		return tt.Res{Ok: ok, V: b2i(err != nil)}
	case "clear":
		s.h.Clear()
		return tt.Res{Ok: true}
	case "convert":
		s.c = o.A[0]
		s.h.Convert(heapCmps[s.c])
		return tt.Res{Ok: true}
	case "merge", "meld", "mergex", "meldx":
		// the second heap has the same comparator, or (mergex/meldx) the opposite one: the result follows the receiver's
		oc := s.c
		if o.N == "mergex" || o.N == "meldx" {
			oc = []int{1, 0, 1}[s.c]
		}
		other := heap.FromSlice(append([]int{}, o.A...), heapCmps[oc])
		var m *heap.Heap[int]
		if o.N == "merge" || o.N == "mergex" {
			m = s.h.Merge(other)
		} else {
			m = s.h.Meld(other)
		}
		out := asc(s.h.GetValues())
		out = append(out, -1)
		out = append(out, asc(other.GetValues())...)
		s.prev = s.h
		s.h = m
		return tt.Res{Ok: true, S: out}
	case "convprev": // the heap a Merge / Meld was called on is recycled under another comparator
		if s.prev != nil {
			s.prev.Convert(heapCmps[o.A[0]])
			s.prev.Push(o.A[0])
		}
		return tt.Res{Ok: true}
	case "sort":
		r := heap.Sort(append([]int{}, o.A[1:]...), heapCmps[o.A[0]])
		return tt.Res{Ok: true, S: append([]int{}, r...)}
	case "drain":
		var out []int
		for i := 0; i < 200 && s.h.Size() > 0; i++ {
			out = append(out, s.h.Pop())
		}
		return tt.Res{Ok: true, V: s.h.Size(), S: out}
	}
	panic("heap driver: unknown op " + o.N)
}

func (s *heapSys) Proj() any {
	p := heapProj{Vals: []int{}, Lay: []int{}}
	if s.h == nil { // pure operations (sort) at the root: nothing is held
		p.Empty = true
		return p
	}
	p.PP = tt.Safe(func() {
		p.Size = s.h.Size()
		p.Empty = s.h.IsEmpty()
		p.Peek = s.h.Peek()
		p.Lay = append([]int{}, s.h.GetValues()...)
		p.Vals = asc(p.Lay)
	})
	return p
}

var heapVals = []int{10, 11, 20, 31}

func slicesUpTo(vals []int, n int) [][]int {
	out := [][]int{{}}
	level := [][]int{{}}
	for l := 1; l <= n; l++ {
		var nl [][]int
		for _, p := range level {
			for _, v := range vals {
				q := append(append([]int{}, p...), v)
				nl = append(nl, q)
			}
		}
		out = append(out, nl...)
		level = nl
	}
	return out
}

func heapExplorer(depth int, tier string) *tt.Explorer {
	deepFS := [][]int{{31, 20, 11, 10}, {10, 11, 20, 31, 20, 10}, {20, 10, 20}}
	return &tt.Explorer{
		New:      func() tt.Sys { return &heapSys{} },
		ZeroProj: heapProj{Vals: []int{}, Lay: []int{}},
		Ops: func(path []tt.Op) []tt.Op {
			if len(path) == 0 {
				var r []tt.Op
				for c := 0; c < 3; c++ { // the 12 deep roots first: one per shard
					r = append(r, op("new", c))
					for _, s := range deepFS {
						r = append(r, op("fromslice", append([]int{c}, s...)...))
					}
				}
				// shallow roots: every slice up to length 4 through FromSlice (then drain / one pop)
				// and every slice up to length 5 over three values through Sort
				for c := 0; c < 3; c++ {
					for _, s := range slicesUpTo(heapVals, 4) {
						r = append(r, op("fromslice", append([]int{c, -7}, s...)...))
					}
					for _, s := range slicesUpTo(heapVals[:3], 5) {
						r = append(r, op("sort", append([]int{c}, s...)...))
					}
				}
				return r
			}
			if path[0].N == "sort" {
				return nil
			}
			d := depth
			if path[0].N == "fromslice" && len(path[0].A) > 1 && path[0].A[1] == -7 {
				d = 1
			}
			if len(path) > d {
				return nil
			}
			r := []tt.Op{op("pop"), op("clear"), op("merge", 11, 20), op("meld", 31, 10, 10), op("meldx", 10, 20, 31), op("mergex", 20, 11),
				op("pushn", 31, 5, 20), op("pushn", 50, 49, 48, 47, 46, 45, 44, 43, 42, 3, 41, 40, 2),
				op("convprev", 1), op("convprev", 0)}
			for _, v := range append([]int{0}, heapVals...) { // the zero value is a value like any other
				r = append(r, op("push", v), op("delete", v))
			}
			for c := 0; c < 3; c++ {
				r = append(r, op("convert", c))
			}
			return r
		},
		Term: func(path []tt.Op) []tt.Op {
			if path[0].N == "sort" {
				return nil
			}
			return []tt.Op{op("drain")}
		},
		SplitDepth: 1,
	}
}

// heapBatch: a batch of 2..70 values (sizes around 8, 12, 16, 32, 64 preferred); the smallest or the largest
// value of the batch sits at a random position, so that a bulk heapify that skips a part of the array shows.
func heapBatch(rng *rand.Rand) []int {
	n := []int{2, 3, 7, 8, 9, 11, 12, 13, 15, 16, 17, 31, 32, 33, 63, 64, 65, 70}[rng.Intn(18)]
	b := make([]int, n)
	for i := range b {
		b[i] = 10 + rng.Intn(41)
	}
	b[rng.Intn(n)] = []int{0, 1, 2, 51, 52}[rng.Intn(5)]
	return b
}

// heapLinear: seeded long runs over 0..50 with all operations.
func heapLinear(cfg Config, file string, runs, steps int) (int, error) {
	ls, err := tt.NewLinearSet(file, heapProj{Vals: []int{}, Lay: []int{}})
	if err != nil {
		return 0, err
	}
	rng := rand.New(rand.NewSource(cfg.Seed))
	for r := 0; r < runs; r++ {
		s := &heapSys{}
		grow := true
		ls.Run(s, func(step int) (tt.Op, bool) {
			if step == 0 {
				return op("new", r%3), true
			}
			if step > steps {
				return tt.Op{}, false
			}
			if rng.Intn(30) == 0 {
				grow = !grow
			}
			x := rng.Intn(100)
			v := 1 + rng.Intn(50)
			switch {
			case x < 1:
				return op("clear"), true
			case x < 4:
				return op("convert", rng.Intn(3)), true
			case x < 6:
				if rng.Intn(3) == 0 { // a second heap past the batch sizes an implementation may special-case
					return op("merge", heapBatch(rng)...), true
				}
				return op("merge", 1+rng.Intn(50), 1+rng.Intn(50)), true
			case x < 8:
				if rng.Intn(3) == 0 {
					return op("meld", heapBatch(rng)...), true
				}
				return op("meld", 1+rng.Intn(50)), true
			case x < 11:
				return op("pushn", heapBatch(rng)...), true
			case x < 20:
				return op("delete", v), true
			case (grow && x < 75) || (!grow && x < 40):
				return op("push", v), true
			default:
				return op("pop"), true
			}
		})
	}
	// FromSlice / Sort of larger inputs that are "almost heaps": random permutations, arrays that satisfy the
	// heap condition under the WRONG parent formula (i/2 instead of (i-1)/2), and heaps with one pair swapped
	for i := 0; i < 240; i++ {
		n := 7 + rng.Intn(14)
		a := make([]int, n)
		switch i % 3 {
		case 0:
			for j := range a {
				a[j] = 1 + rng.Intn(60)
			}
		case 1:
			a[0] = 1 + rng.Intn(5)
			for j := 1; j < n; j++ {
				a[j] = a[j/2] + rng.Intn(9)
			}
		default:
			a[0] = 1 + rng.Intn(5)
			for j := 1; j < n; j++ {
				a[j] = a[(j-1)/2] + rng.Intn(9)
			}
			x, y := rng.Intn(n), rng.Intn(n)
			a[x], a[y] = a[y], a[x]
		}
		c := []int{0, 0, 2}[i%3] // "<" (and "<=")
		if i%2 == 1 {            // the same shapes for a max heap
			for j := range a {
				a[j] = 70 - a[j]
			}
			c = 1
		}
		cur := 0
		sc := []tt.Op{op("fromslice", append([]int{c}, a...)...), op("drain")}
		if i%4 == 3 {
			sc = []tt.Op{op("sort", append([]int{c}, a...)...)}
		}
		ls.Run(&heapSys{}, func(st int) (tt.Op, bool) {
			if cur >= len(sc) {
				return tt.Op{}, false
			}
			cur++
			return sc[cur-1], true
		})
	}
	return ls.Close()
}

func init() {
	drivers["heap"] = driver{
		run: func(cfg Config) (*Summary, error) {
			s := &Summary{Extra: map[string]any{}}
			st, err := heapExplorer(cfg.Depth, cfg.Tier).Explore(cfg.Out+".tree", cfg.Shards)
			if err != nil {
				return nil, err
			}
			s.add(st)
			{ // random walks from the deep roots, far deeper than the exhaustive tree
				nch, ln := 600, 12
				if cfg.Tier == "thorough" {
					nch *= 6
				}
				he := heapExplorer(ln, cfg.Tier)
				ops := he.Ops
				he.Ops = func(path []tt.Op) []tt.Op {
					r := ops(path)
					if len(path) == 0 {
						return r[:12]
					}
					return r
				}
				rf := cfg.Out + ".rnd.lin.ndjson"
				rn, err := tt.RandomChains(he, rf, nch, ln, cfg.Seed*31+7)
				if err != nil {
					return nil, err
				}
				s.Files = append(s.Files, rf)
				s.Nodes += rn
				s.Leaves += nch
				s.Extra["random_walks"] = nch
			}
			runs, steps := 6, 400
			if cfg.Tier == "thorough" {
				runs, steps = 24, 3000
			}
			f := cfg.Out + ".lin.ndjson"
			n, err := heapLinear(cfg, f, runs, steps)
			if err != nil {
				return nil, err
			}
			s.Files = append(s.Files, f)
			s.Nodes += n
			s.Leaves += runs
			s.Extra["linear_runs"] = runs
			s.Extra["linear_nodes"] = n
			if err := sparsePass(cfg, s, func(f string) (int, error) {
				return heapLinear(cfg, f, runs, steps)
			}); err != nil {
				return nil, err
			}
			return s, nil
		},
		newSys: func(variant string) (func() tt.Sys, any) {
			return func() tt.Sys { return &heapSys{} }, heapProj{Vals: []int{}, Lay: []int{}}
		},
	}
}
