package main

import (
	"math/rand"
	"sort"

	"github.com/esimov/gogu"
	"verifharness/tt"
)

// C14: map helpers.  Maps travel flattened (k1,v1,k2,v2,..); results as sorted [k,v] pairs.

func flatMap(m map[int]int) []int {
	var out []int
	for _, p := range pairs(m) {
		out = append(out, p...)
	}
	if out == nil {
		out = []int{}
	}
	return out
}

func mapsLL(ms []map[int]int) [][]int {
	out := [][]int{}
	for _, m := range ms {
		out = append(out, flatMap(m))
	}
	return out
}

func init() {
	h := helperFns
	rm := func(m map[int]int) tt.Res { return rll(pairs(m)) }
	h["Keys"] = func(o tt.Op) tt.Res { return rs(gogu.Keys(mapOf(o.L[0]))) }
	h["Values"] = func(o tt.Op) tt.Res { return rs(gogu.Values(mapOf(o.L[0]))) }
	// op.l[1] = the key list
	h["Pick"] = func(o tt.Op) tt.Res {
		m, err := gogu.Pick(mapOf(o.L[0]), cp(o.L[1])...)
		r := rm(m)
		r.Ok = err == nil
		r.H.E = err != nil
		return r
	}
	h["Omit"] = func(o tt.Op) tt.Res { return rm(gogu.Omit(mapOf(o.L[0]), cp(o.L[1])...)) }
	h["PickBy"] = func(o tt.Op) tt.Res { return rm(gogu.PickBy(mapOf(o.L[0]), pred2(o.F))) }
	h["OmitBy"] = func(o tt.Op) tt.Res { return rm(gogu.OmitBy(mapOf(o.L[0]), pred2(o.F))) }
	h["FilterMap"] = func(o tt.Op) tt.Res { return rm(gogu.FilterMap(mapOf(o.L[0]), predInt(o.F))) }
	h["MapValues"] = func(o tt.Op) tt.Res { return rm(gogu.MapValues(mapOf(o.L[0]), fnInt(o.F))) }
	// key transformation by name: "kPlusV" k+v, "kMod2" k%2, "kId" k
	h["MapKeys"] = func(o tt.Op) tt.Res {
		var f func(k, v int) int
		switch o.F {
		case "kPlusV":
			f = func(k, v int) int { return k + v }
		case "kMod2":
			f = func(k, v int) int { return k % 2 }
		default:
			f = func(k, v int) int { return k }
		}
		return rm(gogu.MapKeys(mapOf(o.L[0]), f))
	}
	h["Invert"] = func(o tt.Op) tt.Res { return rm(gogu.Invert(mapOf(o.L[0]))) }
	h["Find"] = func(o tt.Op) tt.Res { return rm(gogu.Find(mapOf(o.L[0]), predInt(o.F))) }
	h["FindKey"] = func(o tt.Op) tt.Res { return rv(gogu.FindKey(mapOf(o.L[0]), predInt(o.F))) }
	h["FindByKey"] = func(o tt.Op) tt.Res { return rm(gogu.FindByKey(mapOf(o.L[0]), predInt(o.F))) }
	// op.l = the maps, op.a[0] = key
	h["Pluck"] = func(o tt.Op) tt.Res { return rs(gogu.Pluck(mapsOf(o.L), o.A[0])) }
	h["MapUnique"] = func(o tt.Op) tt.Res { return rm(gogu.MapUnique(mapOf(o.L[0]))) }
	h["MapEvery"] = func(o tt.Op) tt.Res { return rb(gogu.MapEvery(mapOf(o.L[0]), predInt(o.F))) }
	h["MapSome"] = func(o tt.Op) tt.Res { return rb(gogu.MapSome(mapOf(o.L[0]), predInt(o.F))) }
	h["MapContains"] = func(o tt.Op) tt.Res { return rb(gogu.MapContains(mapOf(o.L[0]), o.A[0])) }
	h["MapCollection"] = func(o tt.Op) tt.Res { return rs(gogu.MapCollection(mapOf(o.L[0]), fnInt(o.F))) }
	h["SliceToMap"] = func(o tt.Op) tt.Res { return rm(gogu.SliceToMap(cp(o.L[0]), cp(o.L[1]))) }
	h["FilterMapCollection"] = func(o tt.Op) tt.Res {
		return rll(mapsLL(gogu.FilterMapCollection(mapsOf(o.L), predInt(o.F))))
	}
	// two-dimensional: each outer map has the single key 7 -> the inner map; inner predicate by name
	h["Filter2DMapCollection"] = func(o tt.Op) tt.Res {
		coll := []map[int]map[int]int{}
		for _, m := range mapsOf(o.L) {
			outer := map[int]map[int]int{7: m}
			if len(m) > 1 { // a second inner map so that an item can qualify twice
				outer[8] = m
			}
			coll = append(coll, outer)
		}
		res := gogu.Filter2DMapCollection(coll, predMap(o.F))
		out := [][]int{}
		for _, it := range res {
			out = append(out, flatMap(it[7]))
		}
		return rll(out)
	}
	h["PartitionMap"] = func(o tt.Op) tt.Res {
		p := gogu.PartitionMap(mapsOf(o.L), predMap(o.F))
		out := mapsLL(p[0])
		out = append(out, []int{-1})
		out = append(out, mapsLL(p[1])...)
		return rll(out)
	}

	preds := []string{"isOdd", "gt1", "true", "false", "eq2"}
	starDriver("mapops", func(cfg Config, r *starRun, rng *rand.Rand) {
		// all maps with up to 4 entries over keys 0..3 and values 0..2 (zero keys and values included)
		var maps [][]int
		for code := 0; code < 256; code++ { // 4 keys x (absent,1,2,3)
			var m []int
			for k := 0; k < 4; k++ {
				v := (code >> (2 * k)) & 3
				if v > 0 {
					m = append(m, k, v-1)
				}
			}
			if m == nil {
				m = []int{}
			}
			maps = append(maps, m)
		}
		reps := 3 // repeated calls exercise Go's randomised map iteration
		if cfg.Tier == "thorough" {
			reps = 8
		}
		keyLists := slicesUpTo([]int{0, 1, 5}, 2)
		// longer lists: absent and repeated keys ahead of a present one
		keyLists = append(keyLists, []int{5, 7, 0}, []int{5, 5, 0, 1}, []int{7, 5, 1}, []int{5, 7, 9, 2, 0}, []int{0, 0, 1})
		if cfg.Tier == "thorough" {
			keyLists = append(keyLists, slicesUpTo([]int{0, 1, 5}, 3)...)
		}
		for _, m := range maps {
			for rep := 0; rep < reps; rep++ {
				for _, fn := range []string{"Keys", "Values", "Invert", "MapUnique"} {
					r.call(hop(fn, "", nil, m))
				}
				for _, p := range preds {
					for _, fn := range []string{"FilterMap", "Find", "FindKey", "FindByKey", "MapEvery", "MapSome"} {
						r.call(hop(fn, p, nil, m))
					}
				}
				for _, f := range []string{"kPlusV", "kMod2", "kId"} {
					r.call(hop("MapKeys", f, nil, m))
				}
			}
			for _, p := range []string{"kEven", "vGt1", "kEqV", "false"} {
				r.call(hop("PickBy", p, nil, m))
				r.call(hop("OmitBy", p, nil, m))
			}
			for _, f := range []string{"id", "mod2", "sq"} {
				r.call(hop("MapValues", f, nil, m))
				r.call(hop("MapCollection", f, nil, m))
			}
			for _, kl := range keyLists {
				r.call(hop("Pick", "", nil, m, kl))
				r.call(hop("Omit", "", nil, m, kl))
			}
			for v := 0; v <= 4; v++ {
				r.call(hop("MapContains", "", []int{v}, m))
			}
		}
		// collections of up to 3 maps drawn from a representative subset
		sub := [][]int{{}, {1, 1}, {1, 2}, {2, 3}, {1, 1, 2, 2}, {1, 3, 3, 1}, {2, 2, 3, 2, 4, 2}}
		var colls [][][]int
		for _, a := range sub {
			colls = append(colls, [][]int{a})
			for _, b := range sub {
				colls = append(colls, [][]int{a, b})
				for _, c := range sub {
					colls = append(colls, [][]int{a, b, c})
				}
			}
		}
		for _, c := range colls {
			for k := 1; k <= 3; k++ {
				r.call(hop("Pluck", "", []int{k}, c...))
			}
			for rep := 0; rep < reps; rep++ {
				for _, p := range preds {
					r.call(hop("FilterMapCollection", p, nil, c...))
				}
				for _, p := range []string{"hasKey1", "sizeGt1"} {
					r.call(hop("PartitionMap", p, nil, c...))
					r.call(hop("Filter2DMapCollection", p, nil, c...))
				}
			}
		}
		s3 := slicesUpTo([]int{0, 1, 2}, 3)
		for _, a := range s3 {
			for _, b := range s3 {
				if len(a) == len(b) || len(a) == len(b)+1 {
					r.call(hop("SliceToMap", "", nil, a, b))
				}
			}
		}
		// seeded larger maps
		for i := 0; i < 400; i++ {
			m := map[int]int{}
			for j := rng.Intn(12); j > 0; j-- {
				m[1+rng.Intn(20)] = 1 + rng.Intn(6)
			}
			fm := flatMap(m)
			p := preds[rng.Intn(len(preds))]
			for _, fn := range []string{"Keys", "Values", "Invert", "MapUnique"} {
				r.call(hop(fn, "", nil, fm))
			}
			r.call(hop("Find", p, nil, fm))
			r.call(hop("FindKey", p, nil, fm))
			r.call(hop("FilterMap", p, nil, fm))
			r.call(hop("MapKeys", "kMod2", nil, fm))
			kl := randSlice(rng, 5, 20)
			r.call(hop("Pick", "", nil, fm, kl))
			r.call(hop("Omit", "", nil, fm, kl))
		}
		_ = sort.Ints
	})
}
