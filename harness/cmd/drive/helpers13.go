package main

import (
	"math/rand"

	"github.com/esimov/gogu"
	"verifharness/tt"
)

// C13: search, selection, aggregate and numeric helpers.

func mapsOf(l [][]int) []map[int]int {
	out := make([]map[int]int, len(l))
	for i := range l {
		out[i] = mapOf(l[i])
	}
	return out
}

func init() {
	h := helperFns
	h["IndexOf"] = func(o tt.Op) tt.Res { return rv(gogu.IndexOf(cp(o.L[0]), o.A[0])) }
	h["LastIndexOf"] = func(o tt.Op) tt.Res { return rv(gogu.LastIndexOf(cp(o.L[0]), o.A[0])) }
	h["FindIndex"] = func(o tt.Op) tt.Res { return rv(gogu.FindIndex(cp(o.L[0]), predInt(o.F))) }
	h["FindLastIndex"] = func(o tt.Op) tt.Res { return rv(gogu.FindLastIndex(cp(o.L[0]), predInt(o.F))) }
	h["FindAll"] = func(o tt.Op) tt.Res { return rll(pairs(gogu.FindAll(cp(o.L[0]), predInt(o.F)))) }
	h["Contains"] = func(o tt.Op) tt.Res { return rb(gogu.Contains(cp(o.L[0]), o.A[0])) }
	h["Some"] = func(o tt.Op) tt.Res { return rb(gogu.Some(cp(o.L[0]), predInt(o.F))) }
	h["Every"] = func(o tt.Op) tt.Res { return rb(gogu.Every(cp(o.L[0]), predInt(o.F))) }
	h["FindMin"] = func(o tt.Op) tt.Res { return rv(gogu.FindMin(cp(o.L[0]))) }
	h["FindMax"] = func(o tt.Op) tt.Res { return rv(gogu.FindMax(cp(o.L[0]))) }
	h["Min"] = func(o tt.Op) tt.Res { return rv(gogu.Min(cp(o.L[0])...)) }
	h["Max"] = func(o tt.Op) tt.Res { return rv(gogu.Max(cp(o.L[0])...)) }
	h["FindMinBy"] = func(o tt.Op) tt.Res { return rv(gogu.FindMinBy(cp(o.L[0]), fnInt(o.F))) }
	h["FindMaxBy"] = func(o tt.Op) tt.Res { return rv(gogu.FindMaxBy(cp(o.L[0]), fnInt(o.F))) }
	// op.l = the maps (flattened pairs), op.a[0] = key
	h["FindMinByKey"] = func(o tt.Op) tt.Res {
		v, err := gogu.FindMinByKey(mapsOf(o.L), o.A[0])
		return tt.Res{Ok: err == nil, V: v}
	}
	h["FindMaxByKey"] = func(o tt.Op) tt.Res {
		v, err := gogu.FindMaxByKey(mapsOf(o.L), o.A[0])
		return tt.Res{Ok: err == nil, V: v}
	}
	h["Nth"] = func(o tt.Op) tt.Res {
		v, err := gogu.Nth(cp(o.L[0]), xint(o.A[0]))
		return tt.Res{Ok: err == nil, V: v}
	}
	h["Sum"] = func(o tt.Op) tt.Res { return rv(gogu.Sum(cp(o.L[0]))) }
	h["SumBy"] = func(o tt.Op) tt.Res { return rv(gogu.SumBy(cp(o.L[0]), fnInt(o.F))) }
	h["Mean"] = func(o tt.Op) tt.Res { return rv(gogu.Mean(cp(o.L[0]))) }
	// 64-bit elements of large magnitude: op.l[0] are offsets r_i of one sign, a[0] = +1 / -1 is that sign; the
	// elements are sign*2^53 + r_i.  Recorded is the result minus the base (Sum: minus n times the base), which
	// is what the definition yields on the offsets alone; clamped so that it stays a 32-bit number for TLC.
	big := func(o tt.Op) ([]int64, int64) {
		base := int64(o.A[0]) * (int64(1) << 53)
		s := make([]int64, len(o.L[0]))
		for i, r := range o.L[0] {
			s[i] = base + int64(r)
		}
		return s, base
	}
	clamp32 := func(d int64) int {
		if d > 2000000000 {
			return 2000000000
		}
		if d < -2000000000 {
			return -2000000000
		}
		return int(d)
	}
	h["MeanBig"] = func(o tt.Op) tt.Res { s, b := big(o); return rv(clamp32(gogu.Mean(s) - b)) }
	h["SumBig"] = func(o tt.Op) tt.Res { s, b := big(o); return rv(clamp32(gogu.Sum(s) - int64(len(s))*b)) }
	h["MinBig"] = func(o tt.Op) tt.Res { s, b := big(o); return rv(clamp32(gogu.FindMin(s) - b)) }
	h["MaxBig"] = func(o tt.Op) tt.Res { s, b := big(o); return rv(clamp32(gogu.FindMax(s) - b)) }
	// int8 so that the type bounds are inside the enumerated window
	h["Abs8"] = func(o tt.Op) tt.Res { return rv(int(gogu.Abs(int8(o.A[0])))) }
	h["Clamp8"] = func(o tt.Op) tt.Res { return rv(int(gogu.Clamp(int8(o.A[0]), int8(o.A[1]), int8(o.A[2])))) }
	h["InRange8"] = func(o tt.Op) tt.Res { return rb(gogu.InRange(int8(o.A[0]), int8(o.A[1]), int8(o.A[2]))) }
	h["Compare"] = func(o tt.Op) tt.Res { return rv(gogu.Compare(o.A[0], o.A[1], cmpInt(o.F))) }
	h["Less"] = func(o tt.Op) tt.Res { return rb(gogu.Less(o.A[0], o.A[1])) }
	h["Equal"] = func(o tt.Op) tt.Res { return rb(gogu.Equal(o.A[0], o.A[1])) }
	h["Enclose"] = func(o tt.Op) tt.Res { return rb(gogu.Bound[int]{Min: o.A[0], Max: o.A[1]}.Enclose(o.A[2])) }
	h["Range"] = func(o tt.Op) tt.Res {
		r, err := gogu.Range(o.A...)
		return rerr(r, err)
	}
	u8 := func(a []int) []uint8 {
		o := make([]uint8, len(a))
		for i, v := range a {
			o[i] = uint8(v)
		}
		return o
	}
	i8 := func(a []int) []int8 {
		o := make([]int8, len(a))
		for i, v := range a {
			o[i] = int8(v)
		}
		return o
	}
	toInts8 := func(r []uint8) []int {
		o := make([]int, len(r))
		for i, v := range r {
			o[i] = int(v)
		}
		return o
	}
	h["RangeU8"] = func(o tt.Op) tt.Res {
		r, err := gogu.Range(u8(o.A)...)
		return rerr(toInts8(r), err)
	}
	h["RangeRightU8"] = func(o tt.Op) tt.Res {
		r, err := gogu.RangeRight(u8(o.A)...)
		return rerr(toInts8(r), err)
	}
	h["RangeI8"] = func(o tt.Op) tt.Res {
		r, err := gogu.Range(i8(o.A)...)
		o2 := make([]int, len(r))
		for i, v := range r {
			o2[i] = int(v)
		}
		return rerr(o2, err)
	}
	h["RangeRight"] = func(o tt.Op) tt.Res {
		r, err := gogu.RangeRight(o.A...)
		return rerr(r, err)
	}

	preds := []string{"isOdd", "gt1", "true", "false", "eq2"}
	keyFns := []string{"id", "mod2", "div2", "const0", "neg"}
	starDriver("search", func(cfg Config, r *starRun, rng *rand.Rand) {
		n1 := 5
		if cfg.Tier == "thorough" {
			n1 = 6
		}
		for _, s := range slicesUpTo([]int{0, 1, 2}, n1) {
			for v := 0; v <= 4; v++ {
				r.call(hop("IndexOf", "", []int{v}, s))
				r.call(hop("LastIndexOf", "", []int{v}, s))
				r.call(hop("Contains", "", []int{v}, s))
			}
			for i := -len(s) - 3; i <= len(s)+3; i++ {
				r.call(hop("Nth", "", []int{i}, s))
			}
			for _, p := range preds {
				for _, fn := range []string{"FindIndex", "FindLastIndex", "FindAll", "Some", "Every"} {
					r.call(hop(fn, p, nil, s))
				}
			}
			for _, fn := range []string{"FindMin", "FindMax", "Min", "Max", "Sum"} {
				r.call(hop(fn, "", nil, s))
			}
			if len(s) > 0 {
				r.call(hop("Mean", "", nil, s))
			}
			for _, f := range keyFns {
				r.call(hop("FindMinBy", f, nil, s))
				r.call(hop("FindMaxBy", f, nil, s))
				r.call(hop("SumBy", f, nil, s))
			}
		}
		// elements beyond 2^53 (where a float64 no longer holds every integer), all of one sign
		for _, s := range slicesUpTo([]int{0, 1, 2, 5}, 3) {
			if len(s) == 0 {
				continue
			}
			for _, sign := range []int{1, -1} {
				t := cp(s)
				for i := range t {
					t[i] *= sign
				}
				for _, fn := range []string{"MeanBig", "SumBig", "MinBig", "MaxBig"} {
					r.call(hop(fn, "", []int{sign}, t))
				}
			}
		}
		// negative and mixed-sign inputs for the extremum / sum helpers
		for _, s := range slicesUpTo([]int{-2, 0, 5}, 4) {
			for _, fn := range []string{"FindMin", "FindMax", "Min", "Max", "Sum"} {
				r.call(hop(fn, "", nil, s))
			}
			if len(s) > 0 {
				r.call(hop("Mean", "", nil, s))
			}
			r.call(hop("FindMinBy", "neg", nil, s))
			r.call(hop("FindMaxBy", "sq", nil, s))
		}
		// ...ByKey: lists of up to 3 maps over keys {1,2}, values negative, zero and positive (or absent),
		// probing keys 1..3
		const absent = 1 << 20
		var ms [][]int
		for _, v1 := range []int{absent, -3, -1, 2} {
			for _, v2 := range []int{absent, -2, 0, 3} {
				var m []int
				if v1 != absent {
					m = append(m, 1, v1)
				}
				if v2 != absent {
					m = append(m, 2, v2)
				}
				ms = append(ms, m)
			}
		}
		var lists [][][]int
		lists = append(lists, [][]int{})
		for _, a := range ms {
			lists = append(lists, [][]int{a})
			for _, b := range ms {
				lists = append(lists, [][]int{a, b})
				for _, c := range []int{0, 1, 5, 7, 10, 15} {
					c := ms[c]
					lists = append(lists, [][]int{a, b, c})
				}
			}
		}
		for _, l := range lists {
			for k := 1; k <= 3; k++ {
				r.call(hop("FindMinByKey", "", []int{k}, l...))
				r.call(hop("FindMaxByKey", "", []int{k}, l...))
			}
		}
		w := []int{-128, -127, -6, -5, -4, -3, -2, -1, 0, 1, 2, 3, 4, 5, 6, 126, 127}
		for _, a := range w {
			r.call(hop("Abs8", "", []int{a}))
			for _, b := range w {
				r.call(hop("Less", "", []int{a, b}))
				r.call(hop("Equal", "", []int{a, b}))
				for _, c := range w {
					r.call(hop("Clamp8", "", []int{a, b, c}))
					r.call(hop("InRange8", "", []int{a, b, c}))
				}
			}
		}
		for _, a := range []int{10, 11, 20, 21, 35} {
			for _, b := range []int{10, 11, 20, 21, 35} {
				for _, c := range []string{"lt", "gt", "key"} {
					r.call(hop("Compare", c, []int{a, b}))
				}
			}
		}
		for lo := -2; lo <= 3; lo++ {
			for hi := -2; hi <= 4; hi++ {
				for x := -5; x <= 5; x++ {
					r.call(hop("Enclose", "", []int{lo, hi, x}))
				}
			}
		}
		for a := -10; a <= 10; a++ {
			r.call(hop("Range", "", []int{a}))
			r.call(hop("RangeRight", "", []int{a}))
			for b := -10; b <= 10; b++ {
				r.call(hop("Range", "", []int{a, b}))
				r.call(hop("RangeRight", "", []int{a, b}))
				for c := -10; c <= 10; c++ {
					r.call(hop("Range", "", []int{a, b, c}))
					if (a+b+c)%3 == 0 {
						r.call(hop("RangeRight", "", []int{a, b, c}))
					}
				}
			}
		}
		r.call(hop("Range", "", []int{1, 2, 3, 4}))
		// positions at the limits of int
		for _, q := range [][]int{{}, {7}, {1, 2, 3}} {
			for _, x := range xints {
				r.call(hop("Nth", "", []int{x}, q))
			}
		}
		// element types whose upper half a signed conversion would lose
		for _, a := range [][]int{{125, 131}, {250, 255}, {0, 3}, {200, 120, 16}, {131, 1, 125}, {255, 250}, {120, 4, 140}} {
			r.call(hop("RangeU8", "", a))
			r.call(hop("RangeRightU8", "", a))
		}
		// (the value one step past the last element is representable too: nothing may wrap around)
		for _, a := range [][]int{{120, 127}, {-128, -120}, {127, 120}, {-100, 3, -110}, {100, 9, 120}} {
			r.call(hop("RangeI8", "", a))
		}
		for i := 0; i < 1000; i++ {
			a := randSlice(rng, 25, 9)
			v := rng.Intn(11)
			r.call(hop("IndexOf", "", []int{v}, a))
			r.call(hop("LastIndexOf", "", []int{v}, a))
			r.call(hop("Nth", "", []int{rng.Intn(60) - 30}, a))
			r.call(hop("FindAll", preds[rng.Intn(len(preds))], nil, a))
			r.call(hop("FindMaxBy", keyFns[rng.Intn(len(keyFns))], nil, a))
			r.call(hop("Sum", "", nil, a))
			r.call(hop("Range", "", []int{rng.Intn(200) - 100, 1 + rng.Intn(9), rng.Intn(200) - 100}))
		}
	})
}
