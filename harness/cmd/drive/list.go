package main

import (
	"math/rand"

	"github.com/esimov/gogu/list"
	"verifharness/tt"
)

// C19: SList[int] and DList[int].

type listProj struct {
	Each  []int  `json:"each"`
	Each2 []int  `json:"each2"`
	First int    `json:"first"`
	Last  int    `json:"last"`
	FQ    []int  `json:"fq"`
	FF    []bool `json:"ff"`
	FV    []int  `json:"fv"`
	PP    bool   `json:"pp"`
}

func zeroListProj() listProj {
	return listProj{Each: []int{}, Each2: []int{}, FQ: []int{}, FF: []bool{}, FV: []int{}}
}

type listSys struct {
	s      *list.SList[int]
	d      *list.DList[int]
	hs     *list.SingleNode[int] // a handle held across edits (see List.tla)
	hd     *list.DoubleNode[int]
	probes []int // values used so far, plus one absent value
}

func (s *listSys) use(v int) {
	for _, x := range s.probes {
		if x == v {
			return
		}
	}
	s.probes = append(s.probes, v)
}

func (s *listSys) Do(o tt.Op) tt.Res {
	ok := func(err error) tt.Res { return tt.Res{Ok: err == nil} }
	for _, v := range o.A {
		s.use(v)
	}
	switch o.N {
	case "append", "replace", "unshift", "insafter", "hold", "delheld":
	default:
		s.hs, s.hd = nil, nil // every other edit may remove or re-seat nodes: the handle is given up
	}
	switch o.N {
	case "newsn":
		s.s = list.Init(o.A[0])
		for _, v := range o.A[1:] {
			s.s.Append(v)
		}
		s.use(99)
		return tt.Res{Ok: true}
	case "newdn":
		s.d = list.InitDList(o.A[0])
		for _, v := range o.A[1:] {
			s.d.Append(v)
		}
		s.use(99)
		return tt.Res{Ok: true}
	case "hold":
		s.hs, s.hd = nil, nil
		if s.s != nil {
			n, found := s.s.Find(o.A[0])
			if found && n != nil && n != &s.s.SingleNode {
				s.hs = n
			}
			return tt.Res{Ok: s.hs != nil}
		}
		return tt.Res{Ok: s.holdD(o.A[0])}
	case "delheld":
		if s.s != nil {
			if s.hs == nil {
				return tt.Res{Ok: false, V: 2}
			}
			n := s.hs
			s.hs = nil
			return ok(s.s.Delete(n))
		}
		if s.hd == nil {
			return tt.Res{Ok: false, V: 2}
		}
		return ok(s.delHeldD())
	case "news":
		s.s = list.Init(o.A[0])
		s.use(99)
		return tt.Res{Ok: true}
	case "newd":
		s.d = list.InitDList(o.A[0])
		s.use(99)
		return tt.Res{Ok: true}
	case "unshift":
		if s.s != nil {
			s.s.Unshift(o.A[0])
		} else {
			s.d.Unshift(o.A[0])
		}
		return tt.Res{Ok: true}
	case "append":
		if s.s != nil {
			s.s.Append(o.A[0])
		} else {
			s.d.Append(o.A[0])
		}
		return tt.Res{Ok: true}
	case "shift":
		if s.s != nil {
			s.s.Shift()
		} else {
			s.d.Shift()
		}
		return tt.Res{Ok: true}
	case "pop":
		if s.s != nil {
			s.s.Pop()
		} else {
			s.d.Pop()
		}
		return tt.Res{Ok: true}
	case "insafter":
		if s.s != nil {
			n, _ := s.s.Find(o.A[0])
			return ok(s.s.InsertAfter(n, o.A[1]))
		}
		n, _ := s.d.Find(o.A[0])
		return ok(s.d.InsertAfter(n, o.A[1]))
	case "insbefore":
		n, _ := s.d.Find(o.A[0])
		return ok(s.d.InsertBefore(n, o.A[1]))
	case "delete":
		if s.s != nil {
			n, found := s.s.Find(o.A[0])
			if !found || n == nil {
				return tt.Res{Ok: false, V: 2}
			}
			return ok(s.s.Delete(n))
		}
		n, found := s.d.Find(o.A[0])
		if !found || n == nil {
			return tt.Res{Ok: false, V: 2}
		}
		return ok(s.d.Delete(n))
	case "replace":
		if s.s != nil {
			return ok(s.s.Replace(o.A[0], o.A[1]))
		}
		return ok(s.d.Replace(o.A[0], o.A[1]))
	}
	panic("list driver: unknown op " + o.N)
}

func (s *listSys) holdD(v int) bool {
	n, found := s.d.Find(v)
	if found && n != nil && n != &s.d.DoubleNode {
		s.hd = n
	}
	return s.hd != nil
}

func (s *listSys) delHeldD() error {
	n := s.hd
	s.hd = nil
	return s.d.Delete(n)
}

// listHandles: lists of four nodes, handles held across value-changing edits that create duplicates
func listHandles(depth int) *tt.Explorer {
	return &tt.Explorer{
		New:      func() tt.Sys { return &listSys{} },
		ZeroProj: zeroListProj(),
		Ops: func(path []tt.Op) []tt.Op {
			if len(path) == 0 {
				return []tt.Op{op("newsn", 1, 2, 3, 4), op("newdn", 1, 2, 3, 4)}
			}
			if len(path) > depth {
				return nil
			}
			fresh := 10 + len(path)
			r := []tt.Op{op("hold", 2), op("hold", 3), op("hold", 4), op("hold", 1), op("delheld"),
				op("unshift", fresh), op("append", fresh), op("insafter", 1, fresh), op("insafter", 3, fresh),
				op("delete", 2), op("shift")}
			for _, p := range [][2]int{{1, 3}, {2, 4}, {3, 2}, {2, 3}, {4, 2}, {1, 2}, {1, 4}} {
				r = append(r, op("replace", p[0], p[1]))
			}
			return r
		},
		SplitDepth: 2,
	}
}

func (s *listSys) each() []int {
	out := []int{}
	n := 0
	f := func(v int) {
		n++
		if n > 10000 {
			panic("Each does not terminate")
		}
		out = append(out, v)
	}
	if s.s != nil {
		s.s.Each(f)
	} else {
		s.d.Each(f)
	}
	return out
}

func (s *listSys) Proj() any {
	p := zeroListProj()
	p.PP = tt.Safe(func() {
		p.Each = s.each()
		if s.d != nil {
			p.First = s.d.First()
			p.Last = s.d.Last()
		}
		for _, x := range s.probes {
			p.FQ = append(p.FQ, x)
			if s.s != nil {
				n, f := s.s.Find(x)
				p.FF = append(p.FF, f)
				if n != nil {
					p.FV = append(p.FV, n.Value)
				} else {
					p.FV = append(p.FV, 0)
				}
			} else {
				n, f := s.d.Find(x)
				p.FF = append(p.FF, f)
				if n != nil {
					p.FV = append(p.FV, n.Value)
				} else {
					p.FV = append(p.FV, 0)
				}
			}
		}
		p.Each2 = s.each()
	})
	return p
}

// values used on a path so far (fresh values are 10+depth, the constructor value is 1)
func usedVals(path []tt.Op) []int {
	seen := map[int]bool{}
	var out []int
	for _, o := range path {
		var vs []int
		switch o.N {
		case "news", "newd", "unshift", "append":
			vs = o.A[:1]
		case "insafter", "insbefore", "replace":
			vs = o.A[1:2]
		}
		for _, v := range vs {
			if !seen[v] {
				seen[v] = true
				out = append(out, v)
			}
		}
	}
	return out
}

func listExplorer(depth int) *tt.Explorer {
	return &tt.Explorer{
		New:      func() tt.Sys { return &listSys{} },
		ZeroProj: zeroListProj(),
		Ops: func(path []tt.Op) []tt.Op {
			if len(path) == 0 {
				return []tt.Op{op("news", 1), op("newd", 1)}
			}
			if len(path) > depth {
				return nil
			}
			fresh := 10 + len(path)
			dl := path[0].N == "newd"
			r := []tt.Op{op("unshift", fresh), op("append", fresh), op("shift"), op("pop")}
			for _, x := range append(usedVals(path), 99) {
				r = append(r, op("insafter", x, fresh), op("delete", x), op("replace", x, fresh))
				if dl {
					r = append(r, op("insbefore", x, fresh))
				}
			}
			// the same value as old and as new: a no-op for a value that is there, absence for one that is not
			r = append(r, op("replace", 99, 99), op("replace", path[0].A[0], path[0].A[0]))
			return r
		},
		SplitDepth: 2,
	}
}

// listLinear: seeded long runs that shrink to one element and regrow.
func listLinear(cfg Config, file string, runs, steps int) (int, error) {
	ls, err := tt.NewLinearSet(file, zeroListProj())
	if err != nil {
		return 0, err
	}
	rng := rand.New(rand.NewSource(cfg.Seed))
	for r := 0; r < runs; r++ {
		s := &listSys{}
		cur := []int{1} // the driver's own idea of the content, only to pick operands
		grow := true
		next := 100
		ls.Run(s, func(st int) (tt.Op, bool) {
			if st == 0 {
				if r%2 == 0 {
					return op("news", 1), true
				}
				return op("newd", 1), true
			}
			if st > steps {
				return tt.Op{}, false
			}
			if len(s.probes) > 12 { // keep the projection small: forget old probes
				s.probes = append([]int{99}, s.probes[len(s.probes)-8:]...)
			}
			if len(cur) <= 1 {
				grow = true
			} else if len(cur) > 12 {
				grow = false
			} else if rng.Intn(25) == 0 {
				grow = !grow
			}
			next++
			x := cur[rng.Intn(len(cur))]
			if rng.Intn(15) == 0 {
				x = 99
			}
			c := rng.Intn(100)
			rm := func(v int) {
				for i, y := range cur {
					if y == v {
						cur = append(append([]int{}, cur[:i]...), cur[i+1:]...)
						return
					}
				}
			}
			if grow {
				switch {
				case c < 25:
					cur = append([]int{next}, cur...)
					return op("unshift", next), true
				case c < 50:
					cur = append(cur, next)
					return op("append", next), true
				case c < 70:
					if x != 99 {
						cur = append(cur, next) // position irrelevant for operand picking
					}
					return op("insafter", x, next), true
				case c < 85 && r%2 == 1:
					if x != 99 {
						cur = append(cur, next)
					}
					return op("insbefore", x, next), true
				default:
					if x != 99 {
						rm(x)
						cur = append(cur, next)
					}
					return op("replace", x, next), true
				}
			}
			switch {
			case c < 30:
				if len(cur) > 1 {
					cur = cur[1:] // approximate; only used to pick operands
				}
				return op("shift"), true
			case c < 60:
				if len(cur) > 1 {
					cur = cur[:len(cur)-1]
				}
				return op("pop"), true
			default:
				if x != 99 && len(cur) > 1 {
					rm(x)
				}
				return op("delete", x), true
			}
		})
	}
	return ls.Close()
}

func init() {
	drivers["list"] = driver{
		run: func(cfg Config) (*Summary, error) {
			s := &Summary{Extra: map[string]any{}}
			st, err := listExplorer(cfg.Depth).Explore(cfg.Out+".tree", cfg.Shards)
			if err != nil {
				return nil, err
			}
			s.add(st)
			{ // random walks over the same small alphabet, far deeper than the exhaustive tree
				nch, ln := 500, 9
				if cfg.Tier == "thorough" {
					nch *= 6
				}
				rf := cfg.Out + ".rnd.lin.ndjson"
				rn, err := tt.RandomChains(listExplorer(ln), rf, nch, ln, cfg.Seed*31+7)
				if err != nil {
					return nil, err
				}
				s.Files = append(s.Files, rf)
				s.Nodes += rn
				s.Leaves += nch
				s.Extra["random_walks"] = nch
			}
			hd := 3
			if cfg.Tier == "thorough" {
				hd = 4
			}
			st2, err := listHandles(hd).Explore(cfg.Out+".handles.tree", cfg.Shards)
			if err != nil {
				return nil, err
			}
			s.add(st2)
			runs, steps := 6, 300
			if cfg.Tier == "thorough" {
				runs, steps = 24, 1000
			}
			f := cfg.Out + ".lin.ndjson"
			n, err := listLinear(cfg, f, runs, steps)
			if err != nil {
				return nil, err
			}
			s.Files = append(s.Files, f)
			s.Nodes += n
			s.Leaves += runs
			s.Extra["linear_runs"] = runs
			s.Extra["linear_nodes"] = n
			if err := sparsePass(cfg, s, func(f string) (int, error) {
				return listLinear(cfg, f, runs, steps)
			}); err != nil {
				return nil, err
			}
			return s, nil
		},
		newSys: func(variant string) (func() tt.Sys, any) {
			return func() tt.Sys { return &listSys{} }, zeroListProj()
		},
	}
}
