//go:build vshim

package main

import (
	"encoding/json"
	"fmt"
	"sort"
	"strconv"
	stdsync "sync"
	"time"

	"github.com/esimov/gogu/bstree"
	"github.com/esimov/gogu/cache"
	"github.com/esimov/gogu/heap"
	"github.com/esimov/gogu/queue"
	"github.com/esimov/gogu/stack"
	"github.com/esimov/gogu/trie"
	"github.com/esimov/gogu/zzshim/vsync"
	"github.com/esimov/gogu/zzshim/vtime"
	"verifharness/tt"
)

// C02 (and the interleaving part of C01): small concurrent programs on one
// shared instance of a lock-guarded container, every interleaving of their
// critical sections under the controlled scheduler (DESIGN 7/C02).

// concObj applies one call (constructor, mutator or observer) to the real object.
type concObj struct {
	ty string
	q  *queue.Queue[int]
	lq *queue.LQueue[int]
	s  *stack.Stack[int]
	ls *stack.LStack[int]
	h  *heap.Heap[int]
	h2 *heap.Heap[int] // a second shared heap (Merge/Meld between two shared instances)
	hc int
	b  *bstree.BsTree[int, int]
	t  *trie.Trie[string, int]
	c  *cache.Cache[string, string]
}

func (x *concObj) Do(o tt.Op) tt.Res {
	switch o.F {
	case "queue":
		return x.doQueue(o)
	case "stack":
		return x.doStack(o)
	case "heap":
		return x.doHeap(o)
	case "bstree":
		return x.doBst(o)
	case "trie":
		return x.doTrie(o)
	case "cache":
		return x.doCache(o)
	}
	panic("conc driver: unknown type " + o.F)
}

func (x *concObj) Proj() any { return 0 }

func (x *concObj) doQueue(o tt.Op) tt.Res {
	switch o.N {
	case "newq":
		x.q = queue.New[int]()
		return tt.Res{Ok: true}
	case "newl":
		x.lq = queue.NewLinked(o.A[0])
		return tt.Res{Ok: true}
	}
	if x.q != nil {
		switch o.N {
		case "enq":
			x.q.Enqueue(o.A[0])
			return tt.Res{Ok: true}
		case "deq":
			v, err := x.q.Dequeue()
			return tt.Res{Ok: err == nil, V: v}
		case "clear":
			x.q.Clear()
			return tt.Res{Ok: true}
		case "size":
			return tt.Res{Ok: true, V: x.q.Size()}
		case "peek":
			return tt.Res{Ok: true, V: x.q.Peek()}
		case "search":
			return tt.Res{Ok: x.q.Search(o.A[0])}
		case "drain":
			var out []int
			for i := 0; i < 1000 && x.q.Size() > 0; i++ {
				v, _ := x.q.Dequeue()
				out = append(out, v)
			}
			return tt.Res{Ok: true, V: x.q.Size(), S: out}
		}
	} else {
		switch o.N {
		case "enq":
			x.lq.Enqueue(o.A[0])
			return tt.Res{Ok: true}
		case "deq":
			return tt.Res{Ok: true, V: x.lq.Dequeue()}
		case "clear":
			x.lq.Clear()
			return tt.Res{Ok: true}
		case "size":
			return tt.Res{Ok: true, V: x.lq.Size()}
		case "peek":
			return tt.Res{Ok: true, V: x.lq.Peek()}
		case "search":
			return tt.Res{Ok: x.lq.Search(o.A[0])}
		case "drain":
			var out []int
			for i := 0; i < 1000 && x.lq.Size() > 0; i++ {
				out = append(out, x.lq.Dequeue())
			}
			return tt.Res{Ok: true, V: x.lq.Size(), S: out}
		}
	}
	panic("conc driver: unknown queue op " + o.N)
}

func (x *concObj) doStack(o tt.Op) tt.Res {
	switch o.N {
	case "news":
		x.s = stack.New[int]()
		return tt.Res{Ok: true}
	case "newl":
		x.ls = stack.NewLinked(o.A[0])
		return tt.Res{Ok: true}
	}
	if x.s != nil {
		switch o.N {
		case "push":
			x.s.Push(o.A[0])
			return tt.Res{Ok: true}
		case "pop":
			return tt.Res{Ok: true, V: x.s.Pop()}
		case "size":
			return tt.Res{Ok: true, V: x.s.Size()}
		case "peek":
			return tt.Res{Ok: true, V: x.s.Peek()}
		case "search":
			return tt.Res{Ok: x.s.Search(o.A[0])}
		case "drain":
			var out []int
			for i := 0; i < 1000 && x.s.Size() > 0; i++ {
				out = append(out, x.s.Pop())
			}
			return tt.Res{Ok: true, V: x.s.Size(), S: out}
		}
	} else {
		switch o.N {
		case "push":
			x.ls.Push(o.A[0])
			return tt.Res{Ok: true}
		case "pop":
			return tt.Res{Ok: true, V: x.ls.Pop()}
		case "size":
			return tt.Res{Ok: true, V: x.ls.Size()}
		case "peek":
			return tt.Res{Ok: true, V: x.ls.Peek()}
		case "search":
			return tt.Res{Ok: x.ls.Search(o.A[0])}
		case "drain":
			var out []int
			for i := 0; i < 1000 && x.ls.Size() > 0; i++ {
				out = append(out, x.ls.Pop())
			}
			return tt.Res{Ok: true, V: x.ls.Size(), S: out}
		}
	}
	panic("conc driver: unknown stack op " + o.N)
}

func (x *concObj) doHeap(o tt.Op) tt.Res {
	switch o.N {
	case "new":
		x.hc = o.A[0]
		x.h = heap.NewHeap(heapCmps[x.hc])
		x.h2 = heap.NewHeap(heapCmps[x.hc])
		return tt.Res{Ok: true}
	case "pushn": // one variadic Push
		x.h.Push(o.A...)
		return tt.Res{Ok: true}
	case "pushB":
		x.h2.Push(o.A[0])
		return tt.Res{Ok: true}
	case "sizeB":
		return tt.Res{Ok: true, V: x.h2.Size()}
	case "mergeAB":
		return tt.Res{Ok: true, V: x.h.Merge(x.h2).Size()}
	case "mergeBA":
		return tt.Res{Ok: true, V: x.h2.Merge(x.h).Size()}
	case "meldAB":
		return tt.Res{Ok: true, V: x.h.Meld(x.h2).Size()}
	case "meldBA":
		return tt.Res{Ok: true, V: x.h2.Meld(x.h).Size()}
	case "push":
		x.h.Push(o.A[0])
		return tt.Res{Ok: true}
	case "pop":
		return tt.Res{Ok: true, V: x.h.Pop()}
	case "peek":
		return tt.Res{Ok: true, V: x.h.Peek()}
	case "size":
		return tt.Res{Ok: true, V: x.h.Size()}
	case "clear":
		x.h.Clear()
		return tt.Res{Ok: true}
	case "delete":
		ok, err := x.h.Delete(o.A[0])
		return tt.Res{Ok: ok, V: b2i(err != nil)}
	case "drain":
		var out []int
		for i := 0; i < 1000 && x.h.Size() > 0; i++ {
			out = append(out, x.h.Pop())
		}
		return tt.Res{Ok: true, V: x.h.Size(), S: out}
	// the remaining public methods (interleaving part of C01; results are not judged)
	case "isempty":
		return tt.Res{Ok: x.h.IsEmpty()}
	case "getvalues":
		return tt.Res{Ok: true, V: len(x.h.GetValues())}
	case "convert":
		x.h.Convert(heapCmps[o.A[0]])
		return tt.Res{Ok: true}
	case "merge":
		return tt.Res{Ok: true, V: x.h.Merge(heap.FromSlice([]int{7, 8}, heapCmps[x.hc])).Size()}
	case "meld":
		return tt.Res{Ok: true, V: x.h.Meld(heap.FromSlice([]int{7, 8}, heapCmps[x.hc])).Size()}
	}
	panic("conc driver: unknown heap op " + o.N)
}

func (x *concObj) doBst(o tt.Op) tt.Res {
	switch o.N {
	case "new":
		x.b = bstree.New[int, int](func(a, b int) bool { return a < b })
		return tt.Res{Ok: true}
	case "upsert":
		x.b.Upsert(o.A[0], o.A[1])
		return tt.Res{Ok: true}
	case "delete":
		return tt.Res{Ok: x.b.Delete(o.A[0]) == nil}
	case "get":
		it, err := x.b.Get(o.A[0])
		if err != nil {
			return tt.Res{}
		}
		return tt.Res{Ok: true, V: it.Val}
	case "size":
		return tt.Res{Ok: true, V: x.b.Size()}
	case "trav":
		var out []int
		x.b.Traverse(func(it bstree.Item[int, int]) { out = append(out, it.Key, it.Val) })
		return tt.Res{Ok: true, S: out}
	}
	panic("conc driver: unknown bstree op " + o.N)
}

func (x *concObj) doTrie(o tt.Op) tt.Res {
	switch o.N {
	case "new":
		x.t = trie.New[string, int](queue.New[string]())
		return tt.Res{Ok: true}
	case "put":
		x.t.Put(strOf(o.A[1:]), o.A[0])
		return tt.Res{Ok: true}
	case "get":
		v, ok := x.t.Get(strOf(o.A))
		return tt.Res{Ok: ok, V: v}
	case "contains":
		return tt.Res{Ok: x.t.Contains(strOf(o.A))}
	case "size":
		return tt.Res{Ok: true, V: x.t.Size()}
	case "keys":
		q, err := x.t.Keys()
		if err != nil {
			return tt.Res{}
		}
		return tt.Res{Ok: true, V: len(drainQ(q))}
	case "startswith":
		q, err := x.t.StartsWith(strOf(o.A))
		if err != nil {
			return tt.Res{}
		}
		return tt.Res{Ok: true, V: len(drainQ(q))}
	case "longestprefix":
		k, err := x.t.LongestPrefix(strOf(o.A))
		return tt.Res{Ok: err == nil, V: len(k)}
	}
	panic("conc driver: unknown trie op " + o.N)
}

func (x *concObj) doCache(o tt.Op) tt.Res {
	switch o.N {
	case "new":
		vtime.Enable(false)
		x.c = cache.New[string, string](ecDur(o.A[0]), time.Duration(o.A[1])*ecUnit)
		return tt.Res{Ok: true}
	case "tick":
		vtime.Advance(time.Duration(o.A[0]) * ecUnit)
		return tt.Res{Ok: true}
	case "set":
		return tt.Res{Ok: x.c.Set(ecKey(o.A[0]), ecVal(o.A[1]), ecDur(o.A[2])) == nil}
	case "update":
		return tt.Res{Ok: x.c.Update(ecKey(o.A[0]), ecVal(o.A[1]), ecDur(o.A[2])) == nil}
	case "delete":
		return tt.Res{Ok: x.c.Delete(ecKey(o.A[0])) == nil}
	case "get":
		it, err := x.c.Get(ecKey(o.A[0]))
		if err != nil || it == nil {
			return tt.Res{}
		}
		return tt.Res{Ok: true, V: ecValInt(it.Val())}
	case "count":
		return tt.Res{Ok: true, V: x.c.Count()}
	case "flush":
		x.c.Flush()
		return tt.Res{Ok: true}
	case "delexp":
		return tt.Res{Ok: x.c.DeleteExpired() == nil}
	case "list":
		n := 0
		for range x.c.List() {
			n++
		}
		return tt.Res{Ok: true, V: n}
	case "isexpired":
		return tt.Res{Ok: x.c.IsExpired(ecKey(o.A[0]))}
	case "m2c":
		m := map[string]string{}
		for i := 1; i+1 < len(o.A); i += 2 {
			m[ecKey(o.A[i])] = ecVal(o.A[i+1])
		}
		return tt.Res{Ok: x.c.MapToCache(m, ecDur(o.A[0])) == nil}
	case "setdefault":
		return tt.Res{Ok: x.c.SetDefault(ecKey(o.A[0]), ecVal(o.A[1])) == nil}
	}
	panic("conc driver: unknown cache op " + o.N)
}

// ------------------------------------------------------------- programs

type concProg struct {
	Ty      string    `json:"ty"`
	Init    []tt.Op   `json:"init"`
	Threads [][]tt.Op `json:"threads"`
	Post    []tt.Op   `json:"post"`
}

type concSched struct {
	Kind    string   `json:"kind"`
	Prog    concProg `json:"prog"`
	Choices []int    `json:"choices"`
}

func fop(f, n string, a ...int) tt.Op {
	if a == nil {
		a = []int{}
	}
	return tt.Op{F: f, N: n, A: a}
}

// concRun executes one program under the chooser and returns its event sequence.
func concRun(p concProg, run func(bodies []func()) *vsync.Result) ([]tt.Op, []tt.Res, error) {
	// with the access probes in place an access made while no lock is held is a scheduling point
	vsync.Probes = true
	defer func() { vsync.Probes = false }()
	var ev []tt.Op
	var rs []tt.Res
	zero := tt.Res{S: []int{}}
	obj := &concObj{ty: p.Ty}
	add := func(e tt.Op, r tt.Res) {
		evMu.Lock()
		ev = append(ev, e)
		rs = append(rs, r)
		evMu.Unlock()
	}
	for _, o := range p.Init {
		o := o
		add(tt.Op{N: "obs", A: []int{}, X: o}, tt.Exec(obj, o))
	}
	var bodies []func()
	for ti, ops := range p.Threads {
		id, ops := ti+1, ops
		bodies = append(bodies, func() {
			for _, o := range ops {
				o := o
				vsync.Point()
				add(tt.Op{N: "inv", A: []int{id}, X: o}, zero)
				r := tt.Exec(obj, o)
				add(tt.Op{N: "ret", A: []int{id}}, r)
			}
		})
	}
	res := run(bodies)
	if res.Stuck {
		return nil, nil, fmt.Errorf("a thread blocked outside the scheduler's control")
	}
	end := tt.Op{N: "end", A: []int{}}
	for _, b := range res.Blocked {
		end.A = append(end.A, b)
	}
	if res.Deadlock {
		end.N = "deadlock"
	}
	if !res.Deadlock && len(res.Blocked) == 0 {
		for _, o := range p.Post {
			o := o
			add(tt.Op{N: "obs", A: []int{}, X: o}, tt.Exec(obj, o))
		}
	}
	end.X = concSched{Kind: "sched", Prog: p, Choices: append([]int{}, res.Choices...)}
	add(end, zero)
	return ev, rs, nil
}

// alphabets of single-element operations per type (C02) and set-ups
type concType struct {
	name  string
	f     string
	big   []tt.Op // a set-up that fills the backing array exactly (64 elements): only with one call per thread
	inits [][]tt.Op
	ops   func(th, i int) []tt.Op // operations a thread may perform as its i-th call
	post  []tt.Op
	// hand-picked programs of three threads that the quick tier runs as well
	directed []concDirected
}

func trieKey(s string) []int { return bytesOf(s) }

func concTypes() []concType {
	tk := func(v int, s string) []int { return append([]int{v}, bytesOf(s)...) }
	fill := func(f, ctor, add string) []tt.Op {
		r := []tt.Op{fop(f, ctor)}
		if f == "heap" {
			r = []tt.Op{fop(f, ctor, 0)}
		}
		for i := 0; i < 64; i++ {
			r = append(r, fop(f, add, 5+i%3))
		}
		return r
	}
	return []concType{
		{name: "stack", f: "stack", big: fill("stack", "news", "push"),
			inits: [][]tt.Op{{fop("stack", "news")}, {fop("stack", "news"), fop("stack", "push", 2)}, {fop("stack", "news"), fop("stack", "push", 1), fop("stack", "push", 2)}},
			ops: func(th, i int) []tt.Op {
				return []tt.Op{fop("stack", "push", 1), fop("stack", "push", 3), fop("stack", "pop"), fop("stack", "peek"), fop("stack", "size"), fop("stack", "search", 1), fop("stack", "search", 0)}
			},
			post: []tt.Op{fop("stack", "size"), fop("stack", "drain")}},
		{name: "lstack", f: "stack",
			inits: [][]tt.Op{{fop("stack", "newl", 1)}, {fop("stack", "newl", 1), fop("stack", "push", 2), fop("stack", "push", 3)}},
			ops: func(th, i int) []tt.Op {
				return []tt.Op{fop("stack", "push", 1), fop("stack", "push", 4), fop("stack", "pop"), fop("stack", "peek"), fop("stack", "size"), fop("stack", "search", 1), fop("stack", "search", 0)}
			},
			post: []tt.Op{fop("stack", "size"), fop("stack", "peek"), fop("stack", "search", 1), fop("stack", "search", 4)}},
		{name: "queue", f: "queue", big: fill("queue", "newq", "enq"),
			inits: [][]tt.Op{{fop("queue", "newq")}, {fop("queue", "newq"), fop("queue", "enq", 2)}, {fop("queue", "newq"), fop("queue", "enq", 1), fop("queue", "enq", 2)}},
			ops: func(th, i int) []tt.Op {
				return []tt.Op{fop("queue", "enq", 1), fop("queue", "enq", 3), fop("queue", "deq"), fop("queue", "peek"), fop("queue", "size"), fop("queue", "search", 1), fop("queue", "search", 0), fop("queue", "clear")}
			},
			post: []tt.Op{fop("queue", "size"), fop("queue", "drain")}},
		{name: "lqueue", f: "queue",
			inits: [][]tt.Op{{fop("queue", "newl", 1)}, {fop("queue", "newl", 1), fop("queue", "enq", 2)}, {fop("queue", "newl", 1), fop("queue", "deq")}},
			ops: func(th, i int) []tt.Op {
				return []tt.Op{fop("queue", "enq", 1), fop("queue", "enq", 3), fop("queue", "deq"), fop("queue", "peek"), fop("queue", "size"), fop("queue", "search", 1), fop("queue", "search", 0), fop("queue", "clear")}
			},
			post: []tt.Op{fop("queue", "size"), fop("queue", "drain")}},
		{name: "heap", f: "heap", big: fill("heap", "new", "push"),
			inits: [][]tt.Op{{fop("heap", "new", 0)}, {fop("heap", "new", 0), fop("heap", "push", 2), fop("heap", "push", 4)}, {fop("heap", "new", 1), fop("heap", "push", 2)}},
			ops: func(th, i int) []tt.Op {
				return []tt.Op{fop("heap", "push", 1), fop("heap", "push", 3), fop("heap", "pop"), fop("heap", "peek"), fop("heap", "size"), fop("heap", "clear")}
			},
			post: []tt.Op{fop("heap", "size"), fop("heap", "drain")}},
		{name: "bstree", f: "bstree",
			inits: [][]tt.Op{{fop("bstree", "new", 0)}, {fop("bstree", "new", 0), fop("bstree", "upsert", 2, 1), fop("bstree", "upsert", 1, 2), fop("bstree", "upsert", 3, 3)}},
			ops: func(th, i int) []tt.Op {
				v := th*10 + i
				return []tt.Op{fop("bstree", "upsert", 2, v), fop("bstree", "upsert", 4, v), fop("bstree", "get", 2), fop("bstree", "delete", 2), fop("bstree", "delete", 4), fop("bstree", "size")}
			},
			// three overlapping calls on two leaves and below one of them (a check-then-act on the size or on
			// a remembered parent needs a third party to look unchanged)
			directed: []concDirected{
				{init: []tt.Op{fop("bstree", "new", 0), fop("bstree", "upsert", 2, 1), fop("bstree", "upsert", 1, 2), fop("bstree", "upsert", 3, 3), fop("bstree", "upsert", 4, 4)},
					threads: [][]tt.Op{{fop("bstree", "delete", 1)}, {fop("bstree", "delete", 4)}, {fop("bstree", "upsert", 0, 9)}}},
				{init: []tt.Op{fop("bstree", "new", 0), fop("bstree", "upsert", 2, 1), fop("bstree", "upsert", 1, 2), fop("bstree", "upsert", 3, 3), fop("bstree", "upsert", 4, 4)},
					threads: [][]tt.Op{{fop("bstree", "delete", 4)}, {fop("bstree", "delete", 1)}, {fop("bstree", "upsert", 5, 9)}}},
				{init: []tt.Op{fop("bstree", "new", 0), fop("bstree", "upsert", 2, 1), fop("bstree", "upsert", 1, 2), fop("bstree", "upsert", 3, 3)},
					threads: [][]tt.Op{{fop("bstree", "delete", 3)}, {fop("bstree", "upsert", 4, 8)}, {fop("bstree", "delete", 1)}}},
			},
			post: []tt.Op{fop("bstree", "size"), fop("bstree", "trav"), fop("bstree", "get", 2), fop("bstree", "get", 4)}},
		{name: "trie", f: "trie",
			inits: [][]tt.Op{{fop("trie", "new")}, {fop("trie", "new"), fop("trie", "put", tk(1, "ab")...)}},
			ops: func(th, i int) []tt.Op {
				v := th*10 + i
				return []tt.Op{fop("trie", "put", tk(v, "a")...), fop("trie", "put", tk(v, "ab")...), fop("trie", "get", trieKey("a")...), fop("trie", "contains", trieKey("ab")...), fop("trie", "size")}
			},
			post: []tt.Op{fop("trie", "size"), fop("trie", "get", trieKey("a")...), fop("trie", "get", trieKey("ab")...), fop("trie", "contains", trieKey("b")...)}},
		{name: "cache", f: "cache",
			inits: [][]tt.Op{{fop("cache", "new", -1, 0)}, {fop("cache", "new", -1, 0), fop("cache", "set", 0, 1, 0)},
				// an entry that has expired and has not been purged
				{fop("cache", "new", 4, 0), fop("cache", "set", 0, 1, 0), fop("cache", "tick", 5)}},
			ops: func(th, i int) []tt.Op {
				v := th*10 + i
				return []tt.Op{fop("cache", "set", 0, v, 0), fop("cache", "set", 1, v, 0), fop("cache", "get", 0), fop("cache", "update", 0, v, 0), fop("cache", "delete", 0, cacheDelAbsent()), fop("cache", "count"),
					fop("cache", "delexp")} // what the background cleanup does, as a call
			},
			post: []tt.Op{fop("cache", "count"), fop("cache", "get", 0), fop("cache", "get", 1)}},
	}
}

// cacheDelAbsent asks the code under test, sequentially, what Delete of a missing key answers (0: no error,
// 1: an error).  The statement of the cache leaves that open; linearizability is relative to it.
var cacheDelAbsentV = -1

func cacheDelAbsent() int {
	if cacheDelAbsentV < 0 {
		vtime.Enable(false)
		c := cache.New[string, string](ecDur(-1), 0)
		cacheDelAbsentV = 0
		if c.Delete(ecKey(7)) != nil {
			cacheDelAbsentV = 1
		}
	}
	return cacheDelAbsentV
}

type concDirected struct {
	init    []tt.Op
	threads [][]tt.Op
}

// concPrograms enumerates the thread shapes: 2 threads x (2,1) calls, and with full also
// 2 x (2,2) and 3 x (1,1,1); symmetric duplicates are skipped.
func concPrograms(ct concType, full bool) []concProg {
	var out []concProg
	key := func(ops []tt.Op) string { b, _ := json.Marshal(ops); return string(b) }
	seqs := func(th, n int) [][]tt.Op {
		res := [][]tt.Op{{}}
		for i := 0; i < n; i++ {
			var nx [][]tt.Op
			for _, pre := range res {
				for _, o := range ct.ops(th, i+1) {
					nx = append(nx, append(append([]tt.Op{}, pre...), o))
				}
			}
			res = nx
		}
		return res
	}
	for _, d := range ct.directed {
		out = append(out, concProg{Ty: ct.name, Init: d.init, Threads: d.threads, Post: ct.post})
	}
	shapes := [][]int{{2, 1}, {1, 1}}
	if full {
		shapes = [][]int{{2, 1}, {1, 1}, {2, 2}, {1, 1, 1}}
	}
	inits := ct.inits
	if ct.big != nil {
		inits = append(append([][]tt.Op{}, inits...), ct.big)
	}
	for _, init := range inits {
		for _, sh := range shapes {
			if len(init) > 20 && (len(sh) != 2 || sh[0] != 1) {
				continue
			}
			var rec func(t int, cur [][]tt.Op)
			rec = func(t int, cur [][]tt.Op) {
				if t == len(sh) {
					// threads of equal length are interchangeable: keep one order
					for i := 1; i < len(cur); i++ {
						if len(cur[i]) == len(cur[i-1]) && stripVals(key(cur[i])) < stripVals(key(cur[i-1])) {
							return
						}
					}
					out = append(out, concProg{Ty: ct.name, Init: init, Threads: append([][]tt.Op{}, cur...), Post: ct.post})
					return
				}
				for _, s := range seqs(t+1, sh[t]) {
					rec(t+1, append(cur, s))
				}
			}
			rec(0, nil)
		}
	}
	return out
}

// stripVals makes the symmetry key independent of the per-thread values.
func stripVals(s string) string { return s }

func init() {
	drivers["conc"] = driver{
		run: func(cfg Config) (*Summary, error) {
			if cfg.Shard < 0 {
				return nil, fmt.Errorf("conc owns the process-global scheduler: run one process per shard")
			}
			s := &Summary{Extra: map[string]any{}}
			pb := 2
			if cfg.Tier == "thorough" {
				pb = 3
			}
			full := cfg.Tier == "thorough"
			trie_ := tt.NewResTrie()
			seen := map[string]bool{}
			execs, progs, exhausted, pi := 0, 0, 0, 0
			per := map[string]int{}
			for _, ct := range concTypes() {
				if cfg.Var != "" && cfg.Var != "all" && cfg.Var != ct.name {
					continue
				}
				for _, p := range concPrograms(ct, full) {
					pi++
					if (pi-1)%cfg.Shards != cfg.Shard {
						continue
					}
					progs++
					var ferr error
					n, done := concExplore(p, pb, 20000, func(e []tt.Op, r []tt.Res, err error) bool {
						if err != nil {
							ferr = err
							return false
						}
						b, _ := json.Marshal([]any{e[:len(e)-1], r, e[len(e)-1].N, e[len(e)-1].A})
						k := string(b)
						if !seen[k] {
							seen[k] = true
							trie_.InsertR(e, r)
						}
						return true
					})
					if ferr != nil {
						return nil, ferr
					}
					execs += n
					per[ct.name] += n
					if done {
						exhausted++
					}
				}
			}
			f := fmt.Sprintf("%s.tree.%d.ndjson", cfg.Out, cfg.Shard)
			if err := trie_.Write(f); err != nil {
				return nil, err
			}
			s.Files = []string{f}
			s.Nodes = trie_.Nodes()
			s.Leaves = trie_.Seqs()
			s.Extra["programs"] = progs
			s.Extra["programs_exhausted"] = exhausted
			s.Extra["schedules_executed"] = execs
			s.Extra["distinct_histories"] = trie_.Seqs()
			names := make([]string, 0, len(per))
			for k := range per {
				names = append(names, k)
			}
			sort.Strings(names)
			for _, k := range names {
				s.Extra["schedules_"+k] = per[k]
			}
			return s, nil
		},
		replayRaw: func(raw []byte, out string) (any, error) {
			var sc concSched
			if err := json.Unmarshal(raw, &sc); err != nil {
				return nil, err
			}
			i := 0
			ev, rs, err := concRun(sc.Prog, func(bodies []func()) *vsync.Result {
				return vsync.Run(bodies, func(step int, en []int, cur int) int {
					k := 0
					if i < len(sc.Choices) {
						k = sc.Choices[i]
					}
					i++
					return k
				}, false)
			})
			if err != nil {
				return nil, err
			}
			if out != "" {
				t := tt.NewResTrie()
				t.InsertR(ev, rs)
				if err := t.Write(out); err != nil {
					return nil, err
				}
			}
			return map[string]any{"events": ev, "results": rs}, nil
		},
	}
	_ = strconv.Itoa
}

// concExplore enumerates the schedules of one program.
func concExplore(p concProg, pb, max int, visit func([]tt.Op, []tt.Res, error) bool) (int, bool) {
	return vsync.ExploreWith(pb, max, func(run func(bodies []func()) *vsync.Result) bool {
		ev, rs, err := concRun(p, run)
		return visit(ev, rs, err)
	})
}

// logEv appends to an execution's event log.  Under the controlled scheduler one thread runs at a time, but a
// thread released from a channel operation runs next to the scheduled one until its next scheduling
// point: the log is guarded by a real mutex (not the rewritten one).
var evMu stdsync.Mutex

func logEv(ev *[]tt.Op, o tt.Op) {
	evMu.Lock()
	*ev = append(*ev, o)
	evMu.Unlock()
}
