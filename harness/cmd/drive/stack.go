package main

import (
	"math/rand"

	"github.com/esimov/gogu/stack"
	"verifharness/tt"
)

// C06: both stack implementations behind one Sys.

type stackSys struct {
	s    *stack.Stack[int]
	l    *stack.LStack[int]
	hasN int
	// bulk runs: Search probes only at the steps probeAt selects (the model's cost per probe is linear)
	probeAt func(step int) bool
	step    int
}

func (s *stackSys) size() int {
	if s.s != nil {
		return s.s.Size()
	}
	return s.l.Size()
}

func (s *stackSys) pop() int {
	if s.s != nil {
		return s.s.Pop()
	}
	return s.l.Pop()
}

func (s *stackSys) Do(o tt.Op) tt.Res {
	switch o.N {
	case "news":
		s.s = stack.New[int]()
		return tt.Res{Ok: true}
	case "newl":
		s.l = stack.NewLinked(o.A[0])
		return tt.Res{Ok: true}
	case "push":
		if s.s != nil {
			s.s.Push(o.A[0])
		} else {
			s.l.Push(o.A[0])
		}
		return tt.Res{Ok: true}
	case "pop":
		return tt.Res{Ok: true, V: s.pop()}
	case "drain":
		var out []int
		for i := 0; i < 64 && s.size() > 0; i++ {
			out = append(out, s.pop())
		}
		return tt.Res{Ok: true, V: s.size(), S: out}
	}
	panic("stack driver: unknown op " + o.N)
}

func (s *stackSys) Proj() any {
	n := s.hasN
	s.step++
	if s.probeAt != nil && !s.probeAt(s.step) {
		n = 0
	}
	p := queueProj{Has: make([]bool, n)}
	p.PP = tt.Safe(func() {
		p.Size = s.size()
		if s.s != nil {
			p.Peek = s.s.Peek()
		} else {
			p.Peek = s.l.Peek()
		}
		for v := 0; v < n; v++ {
			if s.s != nil {
				p.Has[v] = s.s.Search(v)
			} else {
				p.Has[v] = s.l.Search(v)
			}
		}
	})
	return p
}

func stackExplorer(depth int) *tt.Explorer {
	const hasN = 4
	return &tt.Explorer{
		New:      func() tt.Sys { return &stackSys{hasN: hasN} },
		ZeroProj: queueProj{Has: make([]bool, hasN)},
		Ops: func(path []tt.Op) []tt.Op {
			if len(path) == 0 {
				return []tt.Op{op("news"), op("newl", 1), op("newl", 0)}
			}
			if len(path) > depth {
				return nil
			}
			return []tt.Op{op("push", 1), op("push", 2), op("push", 0), op("pop")}
		},
		Term:       func(path []tt.Op) []tt.Op { return []tt.Op{op("drain")} },
		SplitDepth: 3,
	}
}

// stackLinear records long seeded runs that repeatedly empty and refill.
func stackLinear(cfg Config, file string, runs, steps int) (int, error) {
	const hasN = 6
	ls, err := tt.NewLinearSet(file, queueProj{Has: make([]bool, hasN)})
	if err != nil {
		return 0, err
	}
	rng := rand.New(rand.NewSource(cfg.Seed))
	for r := 0; r < runs; r++ {
		s := &stackSys{hasN: hasN}
		linked := r%2 == 1
		phase := 0
		ls.Run(s, func(step int) (tt.Op, bool) {
			if step == 0 {
				if linked {
					return op("newl", 1+rng.Intn(50)), true
				}
				return op("news"), true
			}
			if step > steps {
				return tt.Op{}, false
			}
			if rng.Intn(40) == 0 {
				phase = 1 - phase
			}
			x := rng.Intn(100)
			if (phase == 0 && x < 70) || (phase == 1 && x < 30) {
				return op("push", rng.Intn(50)), true
			}
			return op("pop"), true
		})
	}
	// bulk runs: grow far past the usual thresholds (256, 1024), empty completely, refill
	// 4200 > 4096; the fill never uses the values 0..5, the last three elements put in are 3, 4, 5:
	// the projection then searches for values that occur exactly once, at the far end
	bulk := 4200
	if cfg.Tier == "thorough" {
		bulk = 9000
	}
	for r := 0; r < 2; r++ {
		s := &stackSys{hasN: hasN, probeAt: func(st int) bool { return st%97 == 0 || (st >= bulk-1 && st <= bulk+3) }}
		linked := r == 1
		ls.Run(s, func(step int) (tt.Op, bool) {
			switch {
			case step == 0 && linked:
				return op("newl", 7), true
			case step == 0:
				return op("news"), true
			case step <= bulk-3:
				return op("push", 6+(step*7)%50), true
			case step <= bulk:
				return op("push", 3+step-(bulk-2)), true
			case step <= bulk+bulk/2:
				return op("pop"), true
			case step <= bulk+bulk/2+20:
				return op("push", 1+(step*3)%50), true
			case step <= 2*bulk+60:
				return op("pop"), true
			case step <= 2*bulk+90:
				return op("push", 1+step%50), true
			}
			return tt.Op{}, false
		})
	}
	// long runs of EQUAL values (a representation that counts repetitions has its limits at 2^8, 2^9 ...): one
	// other element underneath, 700 times the same value, most of them popped again, a few more, then everything
	for r := 0; r < 2; r++ {
		const run = 700
		s := &stackSys{hasN: hasN, probeAt: func(st int) bool { return st%53 == 0 || (st >= run && st <= run+6) || st >= 2*run-2 }}
		linked := r == 1
		ls.Run(s, func(step int) (tt.Op, bool) {
			switch {
			case step == 0 && linked:
				return op("newl", 1), true
			case step == 0:
				return op("news"), true
			case step == 1:
				return op("push", 1), true
			case step <= 1+run:
				return op("push", 2), true
			case step <= 1+run+run-250:
				return op("pop"), true
			case step <= 1+run+run-250+10:
				return op("push", 2), true
			case step <= 1+run+run-250+10+275:
				return op("pop"), true
			}
			return tt.Op{}, false
		})
	}
	return ls.Close()
}

func init() {
	drivers["stack"] = driver{
		run: func(cfg Config) (*Summary, error) {
			s := &Summary{Extra: map[string]any{}}
			st, err := stackExplorer(cfg.Depth).Explore(cfg.Out+".tree", cfg.Shards)
			if err != nil {
				return nil, err
			}
			s.add(st)
			{ // random walks over the same small alphabet, far deeper than the exhaustive tree
				nch, ln := 300, 16
				if cfg.Tier == "thorough" {
					nch *= 6
				}
				rf := cfg.Out + ".rnd.lin.ndjson"
				rn, err := tt.RandomChains(stackExplorer(ln), rf, nch, ln, cfg.Seed*31+7)
				if err != nil {
					return nil, err
				}
				s.Files = append(s.Files, rf)
				s.Nodes += rn
				s.Leaves += nch
				s.Extra["random_walks"] = nch
			}
			runs, steps := 4, 1500
			if cfg.Tier == "thorough" {
				runs, steps = 16, 10000
			}
			f := cfg.Out + ".lin.ndjson"
			n, err := stackLinear(cfg, f, runs, steps)
			if err != nil {
				return nil, err
			}
			s.Files = append(s.Files, f)
			s.Nodes += n
			s.Leaves += runs + 2
			s.Extra["linear_runs"] = runs + 2
			s.Extra["linear_nodes"] = n
			if err := sparsePass(cfg, s, func(f string) (int, error) {
				return stackLinear(cfg, f, runs, steps)
			}); err != nil {
				return nil, err
			}
			return s, nil
		},
		newSys: func(variant string) (func() tt.Sys, any) {
			hasN := 4
			if variant == "lin" {
				hasN = 6
			}
			return func() tt.Sys { return &stackSys{hasN: hasN} }, queueProj{Has: make([]bool, hasN)}
		},
	}
}
