// Command drive runs the real gogu code and records what it does
// (binding B, DESIGN.md 4.1). One sub-driver per property family.
//
//	drive -p queue -out /scratch/t/queue -depth 6 -shards 8 -seed 1 -tier quick
//	drive -p queue -replay '[{"n":"newq","a":[]},{"n":"enq","a":[1]}]'
//
// The first form writes trace files and prints a JSON summary on stdout; the
// second re-executes one operation path on a fresh instance and prints the
// record of its last operation.
package main

import (
	"encoding/json"
	"flag"
	"fmt"
	"os"

	"verifharness/tt"
)

// Config is what a sub-driver gets.
type Config struct {
	Out    string
	Depth  int
	Shards int
	Seed   int64
	Tier   string
	Var    string
	Shard  int // -1: all shards in this process
}

// Summary is printed on stdout.
type Summary struct {
	Files   []string       `json:"files"`
	Nodes   int            `json:"nodes"`
	Leaves  int            `json:"leaves"`
	Panics  int            `json:"panics"`
	Samples []string       `json:"samples"`
	Extra   map[string]any `json:"extra,omitempty"`
}

func (s *Summary) add(st *tt.Stats) {
	s.Files = append(s.Files, st.Files...)
	s.Nodes += st.Nodes
	s.Leaves += st.Leaves
	s.Panics += st.Panics
	if len(s.Samples) < 4 {
		s.Samples = append(s.Samples, st.Samples...)
	}
}

type driver struct {
	run func(cfg Config) (*Summary, error)
	// newSys returns a constructor for fresh instances of the given trace
	// variant ("tree", "lin", ...) and the zero projection; used by replay.
	newSys func(variant string) (func() tt.Sys, any)
	// replayRaw re-executes a driver-specific replay description (schedules of the
	// concurrency drivers) and optionally writes the recording to out.
	replayRaw func(raw []byte, out string) (any, error)
}

var drivers = map[string]driver{}

func main() {
	var cfg Config
	var p, replay, replayOut string
	flag.StringVar(&p, "p", "", "driver name")
	flag.StringVar(&cfg.Out, "out", "", "output prefix")
	flag.IntVar(&cfg.Depth, "depth", 4, "exploration depth")
	flag.IntVar(&cfg.Shards, "shards", 1, "number of trace shards")
	flag.Int64Var(&cfg.Seed, "seed", 1, "seed")
	flag.StringVar(&cfg.Tier, "tier", "quick", "tier")
	flag.StringVar(&cfg.Var, "var", "", "variant")
	flag.IntVar(&cfg.Shard, "shard", -1, "explore only this shard (process-level sharding)")
	flag.StringVar(&replay, "replay", "", "json op path to re-execute")
	flag.StringVar(&replayOut, "replay-out", "", "with -replay: write the whole path as a linear trace file")
	flag.Parse()
	d, ok := drivers[p]
	if !ok {
		fmt.Fprintf(os.Stderr, "unknown driver %q\n", p)
		os.Exit(2)
	}
	if replay != "" {
		var path []tt.Op
		raw := []byte(replay)
		if replay[0] == '@' {
			b, err := os.ReadFile(replay[1:])
			if err != nil {
				fmt.Fprintln(os.Stderr, err)
				os.Exit(2)
			}
			raw = b
		}
		if d.replayRaw != nil {
			setReplayVariant(cfg.Var)
			res, err := d.replayRaw(raw, replayOut)
			if err != nil {
				fmt.Fprintln(os.Stderr, err)
				os.Exit(2)
			}
			b, _ := json.Marshal(res)
			fmt.Println(string(b))
			return
		}
		if err := json.Unmarshal(raw, &path); err != nil {
			fmt.Fprintln(os.Stderr, err)
			os.Exit(2)
		}
		mk, zero := d.newSys(cfg.Var)
		if replayOut != "" {
			ls, err := tt.NewLinearSet(replayOut, zero)
			if err != nil {
				fmt.Fprintln(os.Stderr, err)
				os.Exit(2)
			}
			ls.Run(mk(), func(step int) (tt.Op, bool) {
				if step >= len(path) {
					return tt.Op{}, false
				}
				return path[step], true
			})
			if _, err := ls.Close(); err != nil {
				fmt.Fprintln(os.Stderr, err)
				os.Exit(2)
			}
		}
		r, pr := (&tt.Explorer{New: mk, ZeroProj: zero}).Replay(path)
		if r.S == nil {
			r.S = []int{}
		}
		b, _ := json.Marshal(map[string]any{"res": r, "proj": pr})
		fmt.Println(string(b))
		return
	}
	s, err := d.run(cfg)
	if err != nil {
		fmt.Fprintln(os.Stderr, err)
		os.Exit(2)
	}
	b, _ := json.Marshal(s)
	fmt.Println(string(b))
}

func op(n string, a ...int) tt.Op {
	if a == nil {
		a = []int{}
	}
	return tt.Op{N: n, A: a}
}

func b2i(b bool) int {
	if b {
		return 1
	}
	return 0
}

// hook for drivers whose replay output depends on the -var flag (set in vshim builds)
var setReplayVariant = func(v string) {}
