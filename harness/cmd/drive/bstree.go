package main

import (
	"math/rand"

	"github.com/esimov/gogu/bstree"
	"verifharness/tt"
)

// C04: BsTree[int,int]; the value upserted is the step number.

type mapProj struct {
	Size int   `json:"size"`
	Full bool  `json:"full"`
	Trav []int `json:"trav"` // k1,v1,k2,v2,...
	GK   []int `json:"gk"`   // probe keys
	GV   []int `json:"gv"`   // Get(key) value or -1
	H    int   `json:"h"`    // Height (btree only)
	Emp  bool  `json:"emp"`  // IsEmpty (btree only)
	PP   bool  `json:"pp"`
}

func zeroMapProj() mapProj { return mapProj{Trav: []int{}, GK: []int{}, GV: []int{}} }

type bstSys struct {
	t     *bstree.BsTree[int, int]
	probe func() []int
	full  func() bool
}

func (s *bstSys) Do(o tt.Op) tt.Res {
	switch o.N {
	case "new":
		if o.A[0] == 0 {
			s.t = bstree.New[int, int](func(a, b int) bool { return a < b })
		} else {
			s.t = bstree.New[int, int](func(a, b int) bool { return a > b })
		}
		return tt.Res{Ok: true}
	case "upsert":
		s.t.Upsert(o.A[0], o.A[1])
		return tt.Res{Ok: true}
	case "delete":
		return tt.Res{Ok: s.t.Delete(o.A[0]) == nil}
	case "get": // an observer as a call of its own, between the edits
		it, err := s.t.Get(o.A[0])
		if err != nil {
			return tt.Res{Ok: false}
		}
		return tt.Res{Ok: true, V: it.Val}
	}
	panic("bstree driver: unknown op " + o.N)
}

func (s *bstSys) Proj() any {
	p := zeroMapProj()
	p.PP = tt.Safe(func() {
		p.Size = s.t.Size()
		if s.full() {
			p.Full = true
			s.t.Traverse(func(it bstree.Item[int, int]) { p.Trav = append(p.Trav, it.Key, it.Val) })
		}
		for _, k := range s.probe() {
			it, err := s.t.Get(k)
			p.GK = append(p.GK, k)
			if err != nil {
				p.GV = append(p.GV, -1)
			} else {
				p.GV = append(p.GV, it.Val)
			}
		}
	})
	return p
}

func bstExplorer(depth int) *tt.Explorer {
	keys := []int{0, 1, 2, 3, 4}
	return &tt.Explorer{
		New: func() tt.Sys {
			return &bstSys{probe: func() []int { return keys }, full: func() bool { return true }}
		},
		ZeroProj: zeroMapProj(),
		Ops: func(path []tt.Op) []tt.Op {
			if len(path) == 0 {
				return []tt.Op{op("new", 0), op("new", 1)}
			}
			if len(path) > depth {
				return nil
			}
			var r []tt.Op
			for _, k := range keys {
				r = append(r, op("upsert", k, len(path)), op("delete", k))
			}
			if path[len(path)-1].N != "get" { // never two in a row
				r = append(r, op("get", 1), op("get", 3))
			}
			return r
		},
		SplitDepth: 3,
	}
}

// mapLinear drives long seeded runs over a wide key range in sorted, reversed and random
// insertion order (deep, unbalanced shapes; multi-level splits for the B-tree).
func mapLinear(cfg Config, file string, runs, steps, keyRange int, mk func(probe func() []int, full func() bool) tt.Sys,
	insert, remove string, twoArgRemove bool) (int, error) {
	ls, err := tt.NewLinearSet(file, zeroMapProj())
	if err != nil {
		return 0, err
	}
	rng := rand.New(rand.NewSource(cfg.Seed))
	for r := 0; r < runs; r++ {
		step := 0
		var lastKeys []int
		s := mk(func() []int {
			pk := append([]int{}, lastKeys...)
			for len(pk) < 4 {
				pk = append(pk, rng.Intn(keyRange))
			}
			return pk
		}, func() bool { return step%50 == 0 })
		mode := r % 3
		ls.Run(s, func(st int) (tt.Op, bool) {
			step = st
			if st == 0 {
				return op("new", (r/3)%2), true
			}
			if st > steps {
				return tt.Op{}, false
			}
			var k int
			switch mode {
			case 0:
				k = (st * 3 / 4) % keyRange // ascending with repeats
			case 1:
				k = keyRange - 1 - (st*3/4)%keyRange
			default:
				k = rng.Intn(keyRange)
			}
			if rng.Intn(8) == 0 { // a lookup between the edits: a key touched lately, or any
				if len(lastKeys) > 0 && rng.Intn(2) == 0 {
					return op("get", lastKeys[0]), true
				}
				return op("get", rng.Intn(keyRange)), true
			}
			if rng.Intn(10) < 3 {
				k = rng.Intn(keyRange)
				lastKeys = []int{k}
				return op(remove, k), true
			}
			lastKeys = []int{k}
			return op(insert, k, st), true
		})
	}
	// directed runs: fill, drain completely, refill (the container is used again after it has been emptied);
	// churn: the same few keys removed and put back again and again
	var scripts [][]tt.Op
	for _, n := range []int{1, 3, 4, 5, 9, 20} {
		sc := []tt.Op{op("new", 0)}
		for k := 0; k < n; k++ {
			sc = append(sc, op(insert, (k*7)%n, 100+k))
		}
		for k := 0; k < n; k++ {
			sc = append(sc, op(remove, k))
		}
		for k := 0; k < n; k++ {
			sc = append(sc, op(insert, n-1-k, 200+k))
		}
		for k := n - 1; k >= 0; k-- {
			sc = append(sc, op(remove, k))
		}
		sc = append(sc, op(insert, 2, 300), op(insert, 0, 301), op(remove, 2), op(insert, 1, 302))
		scripts = append(scripts, sc)
	}
	for _, ks := range [][]int{{0}, {0, 1, 2}, {3, 1}} {
		sc := []tt.Op{op("new", 0)}
		for round := 0; round < 8; round++ {
			for _, k := range ks {
				sc = append(sc, op(insert, k, 10*round+k+1), op(remove, k))
			}
		}
		for _, k := range ks {
			sc = append(sc, op(insert, k, 99))
		}
		scripts = append(scripts, sc)
	}
	// look a key up, change the structure around it, change the key itself, look it up again: what a lookup
	// may have remembered must not survive the edits (most telling in the sparse pass, where hardly any
	// other query comes in between)
	for _, side := range []int{1, -1} {
		for _, n := range []int{3, 4, 5, 8, 12, 20} {
			sc := []tt.Op{op("new", 0)}
			for k := 0; k < n; k++ {
				sc = append(sc, op(insert, 10+2*k, 500+k))
			}
			for k := n - 1; k >= 0; k-- {
				K := 10 + 2*k
				N := K + side // a new key right next to it
				sc = append(sc, op("get", K), op(insert, N, 600+k), op(insert, N, 650+k), op("get", N),
					op(insert, K, 700+k), op("get", K), op(remove, N), op("get", N),
					op(remove, K), op("get", K), op(insert, K, 800+k), op("get", K))
			}
			scripts = append(scripts, sc)
		}
	}
	for _, sc := range scripts {
		sc := sc
		cur := 0
		s := mk(func() []int { return []int{0, 1, 2, 3, 19} }, func() bool { return true })
		ls.Run(s, func(st int) (tt.Op, bool) {
			if cur >= len(sc) {
				return tt.Op{}, false
			}
			cur++
			return sc[cur-1], true
		})
	}
	return ls.Close()
}

func init() {
	drivers["bstree"] = driver{
		run: func(cfg Config) (*Summary, error) {
			s := &Summary{Extra: map[string]any{}}
			st, err := bstExplorer(cfg.Depth).Explore(cfg.Out+".tree", cfg.Shards)
			if err != nil {
				return nil, err
			}
			s.add(st)
			{ // random walks over the same small alphabet, far deeper than the exhaustive tree
				nch, ln := 600, 14
				if cfg.Tier == "thorough" {
					nch *= 6
				}
				rf := cfg.Out + ".rnd.lin.ndjson"
				rn, err := tt.RandomChains(bstExplorer(ln), rf, nch, ln, cfg.Seed*31+7)
				if err != nil {
					return nil, err
				}
				s.Files = append(s.Files, rf)
				s.Nodes += rn
				s.Leaves += nch
				s.Extra["random_walks"] = nch
			}
			runs, steps := 6, 600
			if cfg.Tier == "thorough" {
				runs, steps = 24, 4000
			}
			f := cfg.Out + ".lin.ndjson"
			n, err := mapLinear(cfg, f, runs, steps, 200, func(probe func() []int, full func() bool) tt.Sys {
				return &bstSys{probe: probe, full: full}
			}, "upsert", "delete", false)
			if err != nil {
				return nil, err
			}
			s.Files = append(s.Files, f)
			s.Nodes += n
			s.Leaves += runs
			s.Extra["linear_runs"] = runs
			s.Extra["linear_nodes"] = n
			if err := sparsePass(cfg, s, func(f string) (int, error) {
				return mapLinear(cfg, f, runs, steps, 200, func(probe func() []int, full func() bool) tt.Sys {
					return &bstSys{probe: probe, full: full}
				}, "upsert", "delete", false)
			}); err != nil {
				return nil, err
			}
			return s, nil
		},
		newSys: func(variant string) (func() tt.Sys, any) {
			keys := []int{0, 1, 2, 3, 4}
			return func() tt.Sys {
				return &bstSys{probe: func() []int { return keys }, full: func() bool { return true }}
			}, zeroMapProj()
		},
	}
}
