package main

import (
	"math/rand"

	"github.com/esimov/gogu/queue"
	"verifharness/tt"
)

// C05: both queue implementations behind one Sys.

type queueProj struct {
	Size int    `json:"size"`
	Peek int    `json:"peek"`
	Has  []bool `json:"has"` // Search(v) for v = 0..hasN-1 (0 is the zero value)
	PP   bool   `json:"pp"`  // an observer panicked
}

type queueSys struct {
	q    *queue.Queue[int]
	l    *queue.LQueue[int]
	hasN int
	// bulk runs: Search probes only at the steps probeAt selects (the model's cost per probe is linear)
	probeAt func(step int) bool
	step    int
}

func (s *queueSys) size() int {
	if s.q != nil {
		return s.q.Size()
	}
	return s.l.Size()
}

func (s *queueSys) deq() (int, bool) {
	if s.q != nil {
		v, err := s.q.Dequeue()
		return v, err == nil
	}
	return s.l.Dequeue(), true
}

func (s *queueSys) Do(o tt.Op) tt.Res {
	switch o.N {
	case "newq":
		s.q = queue.New[int]()
		return tt.Res{Ok: true}
	case "newl":
		s.l = queue.NewLinked(o.A[0])
		return tt.Res{Ok: true}
	case "enq":
		if s.q != nil {
			s.q.Enqueue(o.A[0])
		} else {
			s.l.Enqueue(o.A[0])
		}
		return tt.Res{Ok: true}
	case "deq":
		v, ok := s.deq()
		return tt.Res{Ok: ok, V: v}
	case "clear":
		if s.q != nil {
			s.q.Clear()
		} else {
			s.l.Clear()
		}
		return tt.Res{Ok: true}
	case "drain":
		// dequeue while Size() > 0 (bounded), then report Size()
		var out []int
		for i := 0; i < 64 && s.size() > 0; i++ {
			v, _ := s.deq()
			out = append(out, v)
		}
		return tt.Res{Ok: true, V: s.size(), S: out}
	}
	panic("queue driver: unknown op " + o.N)
}

func (s *queueSys) Proj() any {
	n := s.hasN
	s.step++
	if s.probeAt != nil && !s.probeAt(s.step) {
		n = 0
	}
	p := queueProj{Has: make([]bool, n)}
	p.PP = tt.Safe(func() {
		p.Size = s.size()
		if s.q != nil {
			p.Peek = s.q.Peek()
		} else {
			p.Peek = s.l.Peek()
		}
		for v := 0; v < n; v++ {
			if s.q != nil {
				p.Has[v] = s.q.Search(v)
			} else {
				p.Has[v] = s.l.Search(v)
			}
		}
	})
	return p
}

func queueExplorer(depth int) *tt.Explorer {
	const hasN = 4
	return &tt.Explorer{
		New:      func() tt.Sys { return &queueSys{hasN: hasN} },
		ZeroProj: queueProj{Has: make([]bool, hasN)},
		Ops: func(path []tt.Op) []tt.Op {
			if len(path) == 0 {
				return []tt.Op{op("newq"), op("newl", 1), op("newl", 0)}
			}
			if len(path) > depth {
				return nil
			}
			return []tt.Op{op("enq", 1), op("enq", 2), op("enq", 0), op("deq"), op("clear")}
		},
		Term:       func(path []tt.Op) []tt.Op { return []tt.Op{op("drain")} },
		SplitDepth: 3,
	}
}

// queueLinear records long seeded drain/refill runs over a 50-value alphabet.
func queueLinear(cfg Config, file string, runs, steps int) (int, error) {
	const hasN = 6
	ls, err := tt.NewLinearSet(file, queueProj{Has: make([]bool, hasN)})
	if err != nil {
		return 0, err
	}
	rng := rand.New(rand.NewSource(cfg.Seed))
	for r := 0; r < runs; r++ {
		s := &queueSys{hasN: hasN}
		linked := r%2 == 1
		phase := 0 // 0 fill, 1 drain
		ls.Run(s, func(step int) (tt.Op, bool) {
			if step == 0 {
				if linked {
					return op("newl", 1+rng.Intn(50)), true
				}
				return op("newq"), true
			}
			if step > steps {
				return tt.Op{}, false
			}
			if rng.Intn(40) == 0 {
				phase = 1 - phase
			}
			x := rng.Intn(100)
			switch {
			case x < 2:
				return op("clear"), true
			case (phase == 0 && x < 70) || (phase == 1 && x < 30):
				return op("enq", rng.Intn(50)), true
			default:
				return op("deq"), true
			}
		})
	}
	// bulk runs: fill far past the usual growth thresholds (256, 1024), drain completely
	// with a short refill in the middle, refill: size-dependent paths of the storage
	// 4200 > 4096; the fill never uses the values 0..5, the last three elements put in are 3, 4, 5:
	// the projection then searches for values that occur exactly once, at the far end
	bulk := 4200
	if cfg.Tier == "thorough" {
		bulk = 9000
	}
	for r := 0; r < 2; r++ {
		s := &queueSys{hasN: hasN, probeAt: func(st int) bool { return st%97 == 0 || (st >= bulk-1 && st <= bulk+3) }}
		linked := r == 1
		ls.Run(s, func(step int) (tt.Op, bool) {
			switch {
			case step == 0 && linked:
				return op("newl", 7), true
			case step == 0:
				return op("newq"), true
			case step <= bulk-3:
				return op("enq", 6+(step*7)%50), true
			case step <= bulk:
				return op("enq", 3+step-(bulk-2)), true
			case step <= bulk+bulk/2:
				return op("deq"), true
			case step <= bulk+bulk/2+20:
				return op("enq", 1+(step*3)%50), true
			case step <= 2*bulk+60:
				return op("deq"), true
			case step <= 2*bulk+90:
				return op("enq", 1+step%50), true
			}
			return tt.Op{}, false
		})
	}
	// long runs of EQUAL values (a representation that counts repetitions has its limits at 2^8, 2^9 ...): one
	// other element in front and one behind, 700 times the same value in between, drained with a refill
	for r := 0; r < 2; r++ {
		const run = 700
		s := &queueSys{hasN: hasN, probeAt: func(st int) bool { return st%53 == 0 || (st >= run && st <= run+6) || st >= 2*run-2 }}
		linked := r == 1
		ls.Run(s, func(step int) (tt.Op, bool) {
			switch {
			case step == 0 && linked:
				return op("newl", 1), true
			case step == 0:
				return op("newq"), true
			case step == 1:
				return op("enq", 1), true
			case step <= 1+run:
				return op("enq", 2), true
			case step == 2+run:
				return op("enq", 3), true
			case step <= 2+run+run-250:
				return op("deq"), true
			case step <= 2+run+run-250+10:
				return op("enq", 2), true
			case step <= 2+run+run-250+10+275:
				return op("deq"), true
			}
			return tt.Op{}, false
		})
	}
	return ls.Close()
}

func init() {
	drivers["queue"] = driver{
		run: func(cfg Config) (*Summary, error) {
			s := &Summary{Extra: map[string]any{}}
			st, err := queueExplorer(cfg.Depth).Explore(cfg.Out+".tree", cfg.Shards)
			if err != nil {
				return nil, err
			}
			s.add(st)
			{ // random walks over the same small alphabet, far deeper than the exhaustive tree
				nch, ln := 300, 16
				if cfg.Tier == "thorough" {
					nch *= 6
				}
				rf := cfg.Out + ".rnd.lin.ndjson"
				rn, err := tt.RandomChains(queueExplorer(ln), rf, nch, ln, cfg.Seed*31+7)
				if err != nil {
					return nil, err
				}
				s.Files = append(s.Files, rf)
				s.Nodes += rn
				s.Leaves += nch
				s.Extra["random_walks"] = nch
			}
			runs, steps := 4, 1500
			if cfg.Tier == "thorough" {
				runs, steps = 16, 10000
			}
			f := cfg.Out + ".lin.ndjson"
			n, err := queueLinear(cfg, f, runs, steps)
			if err != nil {
				return nil, err
			}
			s.Files = append(s.Files, f)
			s.Nodes += n
			s.Leaves += runs + 2
			s.Extra["linear_runs"] = runs + 2
			s.Extra["linear_nodes"] = n
			if err := sparsePass(cfg, s, func(f string) (int, error) {
				return queueLinear(cfg, f, runs, steps)
			}); err != nil {
				return nil, err
			}
			return s, nil
		},
		newSys: func(variant string) (func() tt.Sys, any) {
			hasN := 4
			if variant == "lin" {
				hasN = 6
			}
			return func() tt.Sys { return &queueSys{hasN: hasN} }, queueProj{Has: make([]bool, hasN)}
		},
	}
}
