//go:build vshim

package main

import (
	"encoding/json"
	"fmt"
	"os"
	"time"

	"github.com/esimov/gogu"
	"github.com/esimov/gogu/zzshim/vsync"
	"github.com/esimov/gogu/zzshim/vtime"
	"verifharness/tt"
)

// C20, second half: gogu.NewThrottle under the controlled scheduler and the
// virtual clock (DESIGN 7/C20). A program is a script thread (Call / Cancel /
// Advance) plus NT threads that each call Next NN times; every interleaving
// of their critical sections is executed and recorded as an event sequence.

type thProg struct {
	Per      int      `json:"per"`
	Trailing int      `json:"trailing"`
	Script   []string `json:"script"` // call cancel adv<d>
	NT       int      `json:"nt"`
	NN       int      `json:"nn"`
	// Unit "us": the period and the clock jumps are microseconds (a period that is not a whole number of
	// milliseconds), otherwise milliseconds
	Unit string `json:"unit,omitempty"`
}

type thSched struct {
	Kind    string `json:"kind"`
	Prog    thProg `json:"prog"`
	Choices []int  `json:"choices"`
}

func thBodies(p thProg, ev *[]tt.Op) []func() {
	vtime.Enable(false)
	// every jump of the clock is an event of its own, logged when it happens: a timer callback
	// may hand the baton to other threads in the middle of an Advance
	unit := time.Millisecond
	if p.Unit == "us" {
		unit = time.Microsecond
	}
	vtime.OnJump = func(d time.Duration) { logEv(ev, op("adv", int(d/unit))) }
	th := gogu.NewThrottle(time.Duration(p.Per)*unit, p.Trailing == 1)
	thRelease = func() { th.Cancel() }
	logEv(ev, op("new", p.Per, p.Trailing))
	bodies := []func(){func() {
		for _, a := range p.Script {
			switch {
			case a == "call":
				th.Call()
				logEv(ev, op("call"))
				vtime.Advance(0) // a zero-delay timer fires at once
			case a == "cancel":
				th.Cancel()
				logEv(ev, op("cancel"))
			default:
				var d int
				fmt.Sscanf(a, "adv%d", &d)
				vsync.Point()
				vtime.Advance(time.Duration(d) * unit)
			}
		}
	}}
	for t := 0; t < p.NT; t++ {
		id := t + 2
		bodies = append(bodies, func() {
			for i := 0; i < p.NN; i++ {
				vsync.Point()
				logEv(ev, op("inv", id))
				r := th.Next()
				logEv(ev, op("ret", id, b2i(r)))
			}
		})
	}
	return bodies
}

// thRelease cancels the throttle of the run that just ended.  Only needed for code that parks its waiters
// in channel operations: the scheduler cannot unwind those, they would pile up run after run.
var thRelease func()

func thReleaseBlocked() {
	if vsync.ExtMarks.Load() > 0 && thRelease != nil {
		thRelease()
		vtime.Quiesce(time.Second)
	}
}

func thFinish(r *vsync.Result, ev []tt.Op) ([]tt.Op, error) {
	if r.Stuck {
		return nil, fmt.Errorf("a thread blocked outside the scheduler's control")
	}
	end := tt.Op{N: "end", A: []int{}}
	for _, b := range r.Blocked {
		end.A = append(end.A, b)
	}
	if r.Deadlock {
		end.N = "deadlock"
	}
	for id := range r.Panics {
		ev = append(ev, op("panic", id))
	}
	return append(ev, end), nil
}

func thScripts(maxLen int) [][]string {
	alpha := []string{"call", "cancel", "adv2", "adv4", "adv5"}
	var out [][]string
	var rec func(cur []string)
	rec = func(cur []string) {
		if len(cur) > 0 {
			out = append(out, append([]string{}, cur...))
		}
		if len(cur) == maxLen {
			return
		}
		for _, a := range alpha {
			// nothing interesting follows a second cancel
			n := 0
			for _, c := range cur {
				if c == "cancel" {
					n++
				}
			}
			if a == "cancel" && n >= 1 {
				continue
			}
			rec(append(cur, a))
		}
	}
	rec(nil)
	return out
}

func thKey(ev []tt.Op) string {
	b, _ := json.Marshal(ev)
	return string(b)
}

func init() {
	drivers["throttle"] = driver{
		run: func(cfg Config) (*Summary, error) {
			if cfg.Shard < 0 {
				return nil, fmt.Errorf("throttle owns the process-global scheduler and clock: run one process per shard")
			}
			s := &Summary{Extra: map[string]any{}}
			trie := tt.NewTrie()
			seen := map[string]bool{}
			scripts := thScripts(cfg.Depth)
			execs, progs, exhausted := 0, 0, 0
			pi := 0
			pb := 2 // preemption bound (switching away from a thread that could continue); blocking switches are free
			if cfg.Tier == "thorough" {
				pb = 3
			}
			if cfg.Var == "full" {
				pb = -1
			}
			type job struct {
				sc   []string
				tc   [2]int
				per  int
				unit string
			}
			var jobs []job
			for _, sc := range scripts {
				for _, tc := range [][2]int{{1, 1}, {1, 2}, {2, 1}} {
					jobs = append(jobs, job{sc: sc, tc: tc})
				}
			}
			// directed longer scripts: triggers in several consecutive periods, a consumer that keeps asking
			for _, sc := range [][]string{
				{"call", "call", "adv4", "call", "adv4"},
				{"call", "adv2", "call", "adv4", "adv2", "call", "adv5"},
				{"call", "call", "adv5", "call", "call", "adv5"},
				{"call", "adv5", "call", "adv2", "call", "adv4", "cancel"},
				{"call", "adv2", "call", "adv2", "adv4", "call"},
				{"adv5", "call", "adv4", "call", "adv4", "call"},
			} {
				jobs = append(jobs, job{sc: sc, tc: [2]int{1, 3}}, job{sc: sc, tc: [2]int{2, 2}})
			}
			// a period of 900 microseconds: nothing may round it to whole milliseconds
			for _, sc := range [][]string{
				{"call", "adv300", "call", "adv300", "call", "adv900"},
				{"call", "call", "adv450", "call", "adv450", "adv900"},
				{"call", "adv900", "call", "adv100", "call", "adv1000"},
			} {
				jobs = append(jobs, job{sc: sc, tc: [2]int{1, 3}, per: 900, unit: "us"}, job{sc: sc, tc: [2]int{2, 2}, per: 900, unit: "us"})
			}
			for _, jb := range jobs {
				sc := jb.sc
				for trailing := 0; trailing <= 1; trailing++ {
					for _, tc := range [][2]int{jb.tc} {
						pi++
						if (pi-1)%cfg.Shards != cfg.Shard {
							continue
						}
						p := thProg{Per: 4, Trailing: trailing, Script: sc, NT: tc[0], NN: tc[1]}
						if jb.per != 0 {
							p.Per, p.Unit = jb.per, jb.unit
						}
						progs++
						var ev []tt.Op
						var ferr error
						n, done := vsync.Explore(func() []func() {
							ev = nil
							return thBodies(p, &ev)
						}, pb, 20000, false, func(r *vsync.Result) bool {
							defer thReleaseBlocked()
							seq, err := thFinish(r, ev)
							if err != nil {
								ferr = err
								return false
							}
							k := thKey(seq)
							if !seen[k] {
								seen[k] = true
								seq[len(seq)-1].X = thSched{Kind: "sched", Prog: p, Choices: append([]int{}, r.Choices...)}
								trie.Insert(seq)
							}
							return true
						})
						if ferr != nil {
							return nil, ferr
						}
						execs += n
						if done {
							exhausted++
						}
					}
				}
			}
			f := fmt.Sprintf("%s.tree.%d.ndjson", cfg.Out, cfg.Shard)
			if err := trie.Write(f); err != nil {
				return nil, err
			}
			s.Files = []string{f}
			s.Nodes = trie.Nodes()
			s.Leaves = trie.Seqs()
			s.Extra["programs"] = progs
			s.Extra["programs_exhausted"] = exhausted
			s.Extra["schedules_executed"] = execs
			s.Extra["distinct_histories"] = trie.Seqs()
			return s, nil
		},
		replayRaw: func(raw []byte, out string) (any, error) {
			var sc thSched
			if err := json.Unmarshal(raw, &sc); err != nil {
				return nil, err
			}
			var ev []tt.Op
			i := 0
			r := vsync.Run(thBodies(sc.Prog, &ev), func(step int, en []int, cur int) int {
				k := 0
				if i < len(sc.Choices) {
					k = sc.Choices[i]
				}
				i++
				return k
			}, false)
			seq, err := thFinish(r, ev)
			if err != nil {
				return nil, err
			}
			seq[len(seq)-1].X = sc
			if out != "" {
				t := tt.NewTrie()
				t.Insert(seq)
				if err := t.Write(out); err != nil {
					return nil, err
				}
			}
			return map[string]any{"events": seq}, nil
		},
	}
	_ = os.Stderr
}
