package main

import (
	"math/rand"

	"github.com/esimov/gogu"
	"verifharness/tt"
)

// C15: string helpers.  Strings travel as byte-code sequences (op.l[i], res.s).

func init() {
	h := helperFns
	rstr := func(s string) tt.Res { return tt.Res{Ok: true, S: bs(s)} }
	h["Substr"] = func(o tt.Op) tt.Res { return rstr(gogu.Substr(str(o.L[0]), xint(o.A[0]), xint(o.A[1]))) }
	h["SplitAtIndex"] = func(o tt.Op) tt.Res {
		parts := gogu.SplitAtIndex(str(o.L[0]), xint(o.A[0]))
		ll := [][]int{}
		for _, p := range parts {
			ll = append(ll, bs(p))
		}
		return rll(ll)
	}
	// op.l = {string, token}, op.a[0] = size
	h["Pad"] = func(o tt.Op) tt.Res { return rstr(gogu.Pad(str(o.L[0]), o.A[0], str(o.L[1]))) }
	h["PadLeft"] = func(o tt.Op) tt.Res { return rstr(gogu.PadLeft(str(o.L[0]), o.A[0], str(o.L[1]))) }
	h["PadRight"] = func(o tt.Op) tt.Res { return rstr(gogu.PadRight(str(o.L[0]), o.A[0], str(o.L[1]))) }
	h["Wrap"] = func(o tt.Op) tt.Res {
		w := gogu.Wrap(str(o.L[0]), str(o.L[1]))
		return tt.Res{Ok: true, S: bs(w), H: hl([][]int{bs(gogu.Unwrap(w, str(o.L[1])))})} // and the round trip
	}
	h["Unwrap"] = func(o tt.Op) tt.Res { return rstr(gogu.Unwrap(str(o.L[0]), str(o.L[1]))) }
	h["WrapAllRune"] = func(o tt.Op) tt.Res { return rstr(gogu.WrapAllRune(str(o.L[0]), str(o.L[1]))) }
	h["ToLower"] = func(o tt.Op) tt.Res { return rstr(gogu.ToLower(str(o.L[0]))) }
	h["ToUpper"] = func(o tt.Op) tt.Res { return rstr(gogu.ToUpper(str(o.L[0]))) }
	h["Capitalize"] = func(o tt.Op) tt.Res { return rstr(gogu.Capitalize(str(o.L[0]))) }
	h["CamelCase"] = func(o tt.Op) tt.Res { return rstr(gogu.CamelCase(str(o.L[0]))) }
	// Snake and Kebab together: s = Snake(x); ll = {Kebab(x), Snake(Snake(x)), Kebab(Kebab(x))}
	h["SnakeKebab"] = func(o tt.Op) tt.Res {
		x := str(o.L[0])
		sn, kb := gogu.SnakeCase(x), gogu.KebabCase(x)
		return tt.Res{Ok: true, S: bs(sn), H: hl([][]int{bs(kb), bs(gogu.SnakeCase(sn)), bs(gogu.KebabCase(kb))})}
	}

	starDriver("strops", func(cfg Config, r *starRun, rng *rand.Rand) {
		alpha := []string{"a", "B", "1", "ö", " ", "-", "_", "&", "*"}
		tokens := []string{"*", "-", "a", "ö", "*-", "aa", "a*", ""}
		strs := runeStrings(alpha, 4)
		{ // quick: every string up to 2 runes, 1/4 of length 3, 1/40 of length 4;
			// thorough: every string up to 3 runes, 1/3 of length 4
			var keep []string
			for i, s := range strs {
				n := len([]rune(s))
				if cfg.Tier == "thorough" {
					if n <= 3 || (i+int(cfg.Seed))%3 == 0 {
						keep = append(keep, s)
					}
				} else if n <= 2 || (n == 3 && (i+int(cfg.Seed))%4 == 0) || (n == 4 && (i+int(cfg.Seed))%40 == 0) {
					keep = append(keep, s)
				}
			}
			strs = keep
		}
		for _, s := range strs {
			b := bs(s)
			for off := -len(s) - 3; off <= len(s)+3; off++ {
				for l := -len(s) - 3; l <= len(s)+3; l++ {
					if len(s) <= 4 || (off+l)%2 == 0 {
						r.call(hop("Substr", "", []int{off, l}, b))
					}
				}
				r.call(hop("SplitAtIndex", "", []int{off}, b))
			}
			for _, fn := range []string{"ToLower", "ToUpper", "Capitalize", "ReverseStr"} {
				r.call(hop(fn, "", nil, b))
			}
			for _, t := range tokens {
				tb := bs(t)
				r.call(hop("Wrap", "", nil, b, tb))
				r.call(hop("Unwrap", "", nil, b, tb))
				r.call(hop("WrapAllRune", "", nil, b, tb))
				if t != "" { // padding with an empty token is outside the stated domain
					for size := len(s) - 1; size <= len(s)+5; size++ {
						r.call(hop("Pad", "", []int{size}, b, tb))
						r.call(hop("PadLeft", "", []int{size}, b, tb))
						r.call(hop("PadRight", "", []int{size}, b, tb))
					}
				}
			}
		}
		// case mapping: runes whose title case differs from their upper case, and a final sigma
		for _, s := range runeStrings([]string{"a", "B", "ǆ", "ǅ", "Ǆ", "ς", "Σ"}, 3) {
			for _, fn := range []string{"ToLower", "ToUpper", "Capitalize"} {
				r.call(hop(fn, "", nil, bs(s)))
			}
		}
		// case styles: words of ASCII letters and digits separated by ' ', '-', '_', '&'
		m := 4
		if cfg.Tier == "thorough" {
			m = 6
		}
		for _, s := range runeStrings([]string{"a", "B", "1", " ", "-", "_", "&"}, m) {
			r.call(hop("CamelCase", "", nil, bs(s)))
			r.call(hop("SnakeKebab", "", nil, bs(s)))
		}
		// single words with every pattern of lower/upper/digit runs (camel humps, acronyms inside a word)
		for _, s := range append(runeStrings([]string{"a", "B"}, 8), runeStrings([]string{"a", "B", "1"}, 6)...) {
			r.call(hop("CamelCase", "", nil, bs(s)))
			r.call(hop("SnakeKebab", "", nil, bs(s)))
		}
		words := []string{"foo", "Bar", "fooBar", "FOO", "x1", "a", "HTTPServer", "v2Beta", "fooBARbazQux", "aBCdEFg"}
		seps := []string{" ", "-", "_", "&", "  ", "-_", " & "}
		for i := 0; i < 1500; i++ {
			s := ""
			for k := 1 + rng.Intn(4); k > 0; k-- {
				s += words[rng.Intn(len(words))]
				if k > 1 || rng.Intn(4) == 0 {
					s += seps[rng.Intn(len(seps))]
				}
			}
			if rng.Intn(5) == 0 {
				s = seps[rng.Intn(len(seps))] + s
			}
			r.call(hop("CamelCase", "", nil, bs(s)))
			r.call(hop("SnakeKebab", "", nil, bs(s)))
			r.call(hop("Capitalize", "", nil, bs(s)))
			r.call(hop("Substr", "", []int{rng.Intn(40) - 20, rng.Intn(40) - 20}, bs(s)))
			if i%40 == 0 { // offsets, lengths and split positions at the limits of int (one at a time)
				for _, x := range xints {
					r.call(hop("Substr", "", []int{x, 3}, bs(s)))
					r.call(hop("Substr", "", []int{1, x}, bs(s)))
					r.call(hop("SplitAtIndex", "", []int{x}, bs(s)))
				}
			}
			r.call(hop("SplitAtIndex", "", []int{rng.Intn(30) - 5}, bs(s)))
			t := tokens[rng.Intn(len(tokens)-1)]
			r.call(hop("Pad", "", []int{rng.Intn(40)}, bs(s), bs(t)))
			r.call(hop("Unwrap", "", nil, bs(t+s+t), bs(t)))
			r.call(hop("Unwrap", "", nil, bs(t+s), bs(t)))
		}
	})
}
