//go:build vshim

package main

import (
	"encoding/json"
	"errors"
	"fmt"
	"math"
	"time"

	"github.com/esimov/gogu"
	"github.com/esimov/gogu/cache"
	"github.com/esimov/gogu/zzshim/vsync"
	"github.com/esimov/gogu/zzshim/vtime"
	"verifharness/tt"
)

// C17: Memoizer.Memoize under the controlled scheduler (the singleflight source is part of the
// rewritten scratch copy, so its Mutex and WaitGroup are scheduling points too) and the virtual clock.

type memProg struct {
	Exp     int        `json:"exp"`     // lifetime of a cached value in time units, 0 = for ever
	Pre     []string   `json:"pre"`     // steps made one after the other before the threads start
	Threads [][]string `json:"threads"` // per thread: "m0" "m1" (Memoize of key 0/1), "adv<d>"
	Fail    []int      `json:"fail"`    // execution numbers (1-based) that return an error
	FailIt  []int      `json:"failit"`  // ... that return an error TOGETHER WITH an item
	// Gate: the computation of key 0 does not finish before some thread has made the step "open" - which
	// the programs place behind a call for ANOTHER key: if that call is held up by the computation of
	// key 0 nothing can move any more
	Gate bool `json:"gate,omitempty"`
	// steps: "m0" "m1" Memoize of key 0/1; "adv<d>" clock jump; "sweep" = Cache.DeleteExpired(), what the
	// background cleanup calls on every tick (the cleanup goroutine itself is not a model thread)
}

type memSched struct {
	Kind    string  `json:"kind"`
	Prog    memProg `json:"prog"`
	Choices []int   `json:"choices"`
}

var errMemo = errors.New("computation failed")

func memRun(p memProg, run func(bodies []func()) *vsync.Result) ([]tt.Op, error) {
	var ev []tt.Op
	vtime.Enable(false)
	vtime.OnJump = func(d time.Duration) { logEv(&ev, op("adv", int(d/time.Millisecond))) }
	defer func() { vtime.OnJump = nil }()
	exp := time.Duration(p.Exp) * time.Millisecond
	if p.Exp == 2000000000 { // "for ever" spelled as the largest duration: the deadline does not fit an int64
		exp = time.Duration(math.MaxInt64)
	}
	if p.Exp <= 0 {
		exp = cache.NoExpiration
	}
	m := gogu.NewMemoizer[string, int](exp, 0)
	logEv(&ev, op("new", p.Exp))
	// the items the executions hand back are made beforehand (an Item can only come out of a cache)
	pool := cache.New[string, int](cache.NoExpiration, 0)
	items := map[int]*cache.Item[int]{}
	for e := 1; e <= 8; e++ {
		pool.Set(fmt.Sprint(e), 100+e, cache.NoExpiration)
		items[e], _ = pool.Get(fmt.Sprint(e))
	}
	fails, failIt := map[int]bool{}, map[int]bool{}
	for _, e := range p.Fail {
		fails[e] = true
	}
	for _, e := range p.FailIt {
		failIt[e] = true
	}
	nexec := 0
	var gmu vsync.Mutex
	gcond := vsync.NewCond(&gmu)
	opened := false
	var bodies []func()
	threads := append([][]string{p.Pre}, p.Threads...)
	for ti, ops := range threads {
		id, ops := ti, ops // the prefix runs as thread 0, outside the scheduler
		body := func() {
			for _, o := range ops {
				if o == "open" {
					gmu.Lock()
					opened = true
					gcond.Broadcast()
					gmu.Unlock()
					continue
				}
				if o == "sweep" {
					m.Cache.DeleteExpired()
					logEv(&ev, op("sweep"))
					continue
				}
				if o[0] == 'a' {
					var d int
					fmt.Sscanf(o, "adv%d", &d)
					vsync.Point()
					vtime.Advance(time.Duration(d) * time.Millisecond)
					continue
				}
				k := int(o[1] - '0')
				vsync.Point()
				logEv(&ev, op("inv", id, k))
				// long keys that share their first 24 bytes
				it, err := m.Memoize(fmt.Sprintf("memoized-computation-key-%d", k), func() (*cache.Item[int], error) {
					nexec++
					e := nexec
					th := vsync.CurrentThread()
					if !vsync.Active() {
						th = 0
					}
					logEv(&ev, op("fnstart", th, k, e))
					vsync.Point() // the computation takes a while: anything may happen meanwhile
					if p.Gate && k == 0 {
						gmu.Lock()
						for !opened {
							gcond.Wait()
						}
						gmu.Unlock()
					}
					if failIt[e] && e <= 8 {
						logEv(&ev, op("fnend", e, 0, 0))
						return items[e], errMemo // an error is an error, whatever comes with it
					}
					if fails[e] || e > 8 {
						logEv(&ev, op("fnend", e, 0, 0))
						return nil, errMemo
					}
					logEv(&ev, op("fnend", e, 1, 100+e))
					return items[e], nil
				})
				switch {
				case err != nil && it == nil:
					logEv(&ev, op("ret", id, 0, 0))
				case err != nil:
					logEv(&ev, op("ret", id, 0, it.Val())) // an error together with a value: recorded as it is
				default:
					logEv(&ev, op("ret", id, 1, it.Val()))
				}
			}
		}
		if ti == 0 {
			body()
		} else {
			bodies = append(bodies, body)
		}
	}
	res := run(bodies)
	if res.Stuck {
		return nil, fmt.Errorf("a thread blocked outside the scheduler's control")
	}
	end := tt.Op{N: "end", A: []int{}}
	for _, b := range res.Blocked {
		end.A = append(end.A, b)
	}
	if res.Deadlock {
		end.N = "deadlock"
	}
	for id := range res.Panics {
		logEv(&ev, op("panic", id))
	}
	if p.Pre == nil {
		p.Pre = []string{}
	}
	if p.Fail == nil {
		p.Fail = []int{}
	}
	if p.FailIt == nil {
		p.FailIt = []int{}
	}
	end.X = memSched{Kind: "sched", Prog: p, Choices: append([]int{}, res.Choices...)}
	return append(ev, end), nil
}

func memPrograms(full bool) []memProg {
	alpha := []string{"m0", "m1", "adv6"}
	var seqs [][]string
	for _, a := range alpha {
		seqs = append(seqs, []string{a})
	}
	for _, a := range alpha {
		for _, b := range alpha {
			if a == "adv6" && b == "adv6" {
				continue
			}
			seqs = append(seqs, []string{a, b})
		}
	}
	key := func(s []string) string { b, _ := json.Marshal(s); return string(b) }
	var out []memProg
	// after a value was cached and has expired (not purged: there is no cleanup), and after a value was
	// cached and is still live: what concurrent callers do then
	for _, pre := range [][]string{{"m0", "adv6"}, {"m0"}, {"m0", "adv6", "m0", "adv6"}} {
		for _, f := range [][]int{{}, {2}} {
			for _, th := range [][][]string{{{"m0"}, {"m0"}}, {{"m0", "m0"}, {"m0"}}, {{"m0"}, {"m1"}}, {{"m0", "m0"}, {"adv6"}}} {
				out = append(out, memProg{Exp: 5, Pre: pre, Threads: th, Fail: f})
			}
		}
	}
	// an execution that fails but hands an item back with the error; a memoizer whose entries never
	// expire, with background cleanup, whose tick falls into the sequential prefix
	for _, th := range [][][]string{{{"m0"}, {"m0"}}, {{"m0", "m0"}, {"m0"}}, {{"m0", "m0"}, {"m1"}}} {
		out = append(out, memProg{Exp: 5, Threads: th, FailIt: []int{1}})
		out = append(out, memProg{Exp: 0, Threads: th, FailIt: []int{1}})
		out = append(out, memProg{Exp: 0, Pre: []string{"m0", "adv7", "sweep"}, Threads: th})
		out = append(out, memProg{Exp: 5, Pre: []string{"m0", "adv3", "sweep", "m1", "adv3", "sweep"}, Threads: th})
		out = append(out, memProg{Exp: 5, Pre: []string{"m0"}, Threads: append([][]string{{"adv3", "sweep"}}, th...)})
	}
	// the cleanup pass falls INTO a recomputation of an expired, not yet purged value: what was computed must
	// still be cached afterwards (the second call of the same thread is served without computing)
	for _, pre := range [][]string{{"m0", "adv6"}, {"m0", "adv6", "m1"}} {
		for _, th := range [][][]string{{{"m0", "m0"}, {"sweep"}}, {{"m0"}, {"sweep"}, {"m0"}}, {{"m0", "m0"}, {"sweep", "m0"}}} {
			out = append(out, memProg{Exp: 5, Pre: pre, Threads: th})
		}
	}
	// a call for another key goes through while a computation is in flight and has been joined
	for _, th := range [][][]string{{{"m0"}, {"m0"}, {"m1", "open"}}, {{"m0"}, {"m1", "open"}}, {{"m0"}, {"m0"}, {"m0"}, {"m1", "open"}}} {
		out = append(out, memProg{Exp: 0, Threads: th, Gate: true})
	}
	// a lifetime beyond what a nanosecond timestamp can hold
	for _, th := range [][][]string{{{"m0", "m0"}, {"m0"}}, {{"m0", "adv6", "m0"}, {"m1"}}} {
		out = append(out, memProg{Exp: 2000000000, Threads: th})
		out = append(out, memProg{Exp: 2000000000, Pre: []string{"m0", "adv6"}, Threads: th})
	}
	fails := [][]int{{}, {1}, {2}, {1, 2}}
	for _, exp := range []int{0, 5} {
		for _, f := range fails {
			for i, a := range seqs {
				for _, b := range seqs[i:] {
					if len(a) == 1 && a[0] == "adv6" && len(b) == 1 && b[0] == "adv6" {
						continue
					}
					out = append(out, memProg{Exp: exp, Threads: [][]string{a, b}, Fail: f})
				}
			}
			// three callers, one call each; with full also a third thread next to two-call threads
			for _, a := range alpha[:2] {
				for _, b := range alpha[:2] {
					for _, c := range alpha {
						if key([]string{a}) > key([]string{b}) {
							continue
						}
						out = append(out, memProg{Exp: exp, Threads: [][]string{{a}, {b}, {c}}, Fail: f})
						if full {
							out = append(out, memProg{Exp: exp, Threads: [][]string{{a, "m0"}, {b, "adv6"}, {c}}, Fail: f})
						}
					}
				}
			}
		}
	}
	return out
}

func init() {
	drivers["memoize"] = driver{
		run: func(cfg Config) (*Summary, error) {
			if cfg.Shard < 0 {
				return nil, fmt.Errorf("memoize owns the process-global scheduler and clock: run one process per shard")
			}
			pb := 2
			if cfg.Tier == "thorough" {
				pb = 3
			}
			trie := tt.NewTrie()
			seen := map[string]bool{}
			execs, progs, exhausted := 0, 0, 0
			for pi, p := range memPrograms(cfg.Tier == "thorough") {
				if pi%cfg.Shards != cfg.Shard {
					continue
				}
				progs++
				var ferr error
				n, done := vsync.ExploreWith(pb, 20000, func(run func([]func()) *vsync.Result) bool {
					ev, err := memRun(p, run)
					if err != nil {
						ferr = err
						return false
					}
					b, _ := json.Marshal([]any{ev[:len(ev)-1], ev[len(ev)-1].N, ev[len(ev)-1].A})
					if k := string(b); !seen[k] {
						seen[k] = true
						trie.Insert(ev)
					}
					return true
				})
				if ferr != nil {
					return nil, ferr
				}
				execs += n
				if done {
					exhausted++
				}
			}
			f := fmt.Sprintf("%s.tree.%d.ndjson", cfg.Out, cfg.Shard)
			if err := trie.Write(f); err != nil {
				return nil, err
			}
			return &Summary{Files: []string{f}, Nodes: trie.Nodes(), Leaves: trie.Seqs(), Extra: map[string]any{
				"programs": progs, "programs_exhausted": exhausted, "schedules_executed": execs, "distinct_histories": trie.Seqs()}}, nil
		},
		replayRaw: func(raw []byte, out string) (any, error) {
			var sc memSched
			if err := json.Unmarshal(raw, &sc); err != nil {
				return nil, err
			}
			i := 0
			ev, err := memRun(sc.Prog, func(bodies []func()) *vsync.Result {
				return vsync.Run(bodies, func(step int, en []int, cur int) int {
					k := 0
					if i < len(sc.Choices) {
						k = sc.Choices[i]
					}
					i++
					return k
				}, false)
			})
			if err != nil {
				return nil, err
			}
			if out != "" {
				t := tt.NewTrie()
				t.Insert(ev)
				if err := t.Write(out); err != nil {
					return nil, err
				}
			}
			return map[string]any{"events": ev}, nil
		},
	}
}
