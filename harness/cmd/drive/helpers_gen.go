package main

import (
	"math/rand"

	"verifharness/tt"
)

// Input enumerators for the pure-helper drivers (DESIGN 7/C11-C15).

func hop(n, f string, a []int, l ...[]int) tt.Op {
	if a == nil {
		a = []int{}
	}
	o := tt.Op{N: n, A: a, F: f}
	for _, x := range l {
		o.L = append(o.L, cp(x))
	}
	return o
}

// all nests with at most `leaves` leaves and nesting depth <= depth
func nests(depth, leaves int) []nest {
	leafs := []nest{{T: "v", V: 1}, {T: "v", V: 2}, {T: "s", S: []int{2, 1}}, {T: "s", S: []int{}}, {T: "x"}}
	var rec func(d, budget int) []nest
	rec = func(d, budget int) []nest {
		out := append([]nest{}, leafs...)
		if d == 0 {
			return out
		}
		// lists of 0..3 children whose leaf counts sum to <= budget
		var lists func(k, b int) [][]nest
		lists = func(k, b int) [][]nest {
			res := [][]nest{{}}
			if k == 0 || b == 0 {
				return res
			}
			for _, c := range rec(d-1, b) {
				lc := c.leafCount()
				if lc > b {
					continue
				}
				for _, rest := range lists(k-1, b-lc) {
					res = append(res, append([]nest{c}, rest...))
				}
			}
			return res
		}
		for _, l := range lists(3, budget) {
			out = append(out, nest{T: "l", L: l})
		}
		return out
	}
	return rec(depth, leaves)
}

func (n nest) leafCount() int {
	if n.T != "l" {
		return 1
	}
	c := 0
	for _, x := range n.L {
		c += x.leafCount()
	}
	if c == 0 {
		return 1
	}
	return c
}

type starRun struct {
	ss  *tt.StarSet
	sys helperSys
	pan int
}

func (r *starRun) call(o tt.Op) {
	if r.ss.Call(r.sys, o).P {
		r.pan++
	}
}

func starDriver(name string, gen func(cfg Config, r *starRun, rng *rand.Rand)) {
	drivers[name] = driver{
		run: func(cfg Config) (*Summary, error) {
			ss, err := tt.NewStarSet(cfg.Out+".star", cfg.Shards)
			if err != nil {
				return nil, err
			}
			r := &starRun{ss: ss}
			gen(cfg, r, rand.New(rand.NewSource(cfg.Seed)))
			files, err := ss.Close()
			if err != nil {
				return nil, err
			}
			return &Summary{Files: files, Nodes: ss.N(), Leaves: ss.N(), Panics: r.pan, Samples: []string{}}, nil
		},
		newSys: func(variant string) (func() tt.Sys, any) {
			return func() tt.Sys { return helperSys{} }, 0
		},
	}
}

func randSlice(rng *rand.Rand, n, hi int) []int {
	out := make([]int, rng.Intn(n+1))
	for i := range out {
		out[i] = rng.Intn(hi + 1)
	}
	return out
}

// bigSlice: exactly n elements (sizes beyond the usual small-input thresholds 32, 64, 256)
func bigSlice(rng *rand.Rand, n, hi int) []int {
	out := make([]int, n)
	for i := range out {
		out[i] = rng.Intn(hi + 1)
	}
	return out
}

func init() {
	keyFns := []string{"id", "mod2", "div2", "const0"}
	preds := []string{"isOdd", "gt1", "true", "false", "eq2"}
	vals := []int{0, 1, 2} // the zero value is a value like any other

	// ------------------------------------------------------------------ C11
	starDriver("sliceset", func(cfg Config, r *starRun, rng *rand.Rand) {
		n1, n2, n3, nl := 5, 3, 2, 3
		if cfg.Tier == "thorough" {
			n1, n2, n3, nl = 6, 4, 3, 4
		}
		for _, s := range slicesUpTo(vals, n1) {
			r.call(hop("Unique", "", nil, s))
			r.call(hop("Duplicate", "", nil, s))
			r.call(hop("DuplicateWithIndex", "", nil, s))
			r.call(hop("Intersection", "", nil, s))
			for _, f := range keyFns {
				r.call(hop("UniqueBy", f, nil, s))
				r.call(hop("IntersectionBy", f, nil, s))
			}
		}
		s2 := slicesUpTo(vals, n2)
		for _, a := range s2 {
			for _, b := range s2 {
				r.call(hop("Difference", "", nil, a, b))
				r.call(hop("Without", "", nil, a, b))
				r.call(hop("Intersection", "", nil, a, b))
				for _, f := range keyFns {
					r.call(hop("DifferenceBy", f, nil, a, b))
					r.call(hop("IntersectionBy", f, nil, a, b))
				}
			}
		}
		s3 := slicesUpTo(vals, n3)
		for _, a := range s3 {
			for _, b := range s3 {
				for _, c := range s3 {
					r.call(hop("Intersection", "", nil, a, b, c))
					for _, f := range keyFns {
						r.call(hop("IntersectionBy", f, nil, a, b, c))
					}
				}
			}
		}
		for _, n := range nests(3, nl) {
			o := hop("Union", "", nil)
			o.X = n
			r.call(o)
		}
		// seeded larger inputs over a wider alphabet
		for i := 0; i < 1500; i++ {
			a, b, c := randSlice(rng, 12, 7), randSlice(rng, 12, 7), randSlice(rng, 8, 7)
			f := keyFns[rng.Intn(len(keyFns))]
			r.call(hop("Unique", "", nil, a))
			r.call(hop("UniqueBy", f, nil, a))
			r.call(hop("Duplicate", "", nil, a))
			r.call(hop("DuplicateWithIndex", "", nil, a))
			r.call(hop("Intersection", "", nil, a, b, c))
			r.call(hop("IntersectionBy", f, nil, a, b, c))
			r.call(hop("Difference", "", nil, a, b))
			r.call(hop("DifferenceBy", f, nil, a, b))
			r.call(hop("Without", "", nil, a, c))
		}
		// large inputs: code paths that only switch on beyond a size threshold
		for _, n := range []int{33, 40, 65, 130, 300} {
			for rep := 0; rep < 3; rep++ {
				a, b, c := bigSlice(rng, n, 9+n/4), bigSlice(rng, n+rep, 9+n/4), bigSlice(rng, n/2, 9+n/4)
				small := randSlice(rng, 6, 9)
				f := keyFns[rng.Intn(len(keyFns))]
				for _, x := range [][2][]int{{a, b}, {small, b}, {a, small}} {
					r.call(hop("Difference", "", nil, x[0], x[1]))
					r.call(hop("DifferenceBy", f, nil, x[0], x[1]))
					r.call(hop("Without", "", nil, x[0], x[1]))
					r.call(hop("Intersection", "", nil, x[0], x[1], c))
					r.call(hop("IntersectionBy", f, nil, x[0], x[1], c))
				}
				r.call(hop("Unique", "", nil, a))
				r.call(hop("UniqueBy", f, nil, a))
				r.call(hop("Duplicate", "", nil, a))
				r.call(hop("DuplicateWithIndex", "", nil, a))
			}
		}
	})

	// ------------------------------------------------------------------ C12
	starDriver("reshape", func(cfg Config, r *starRun, rng *rand.Rand) {
		n1, nl := 6, 3
		if cfg.Tier == "thorough" {
			n1, nl = 7, 4
		}
		for _, s := range slicesUpTo(vals, n1) {
			for size := 1; size <= 8; size++ {
				r.call(hop("Chunk", "", []int{size}, s))
			}
			for d := -9; d <= 9; d++ {
				r.call(hop("Drop", "", []int{d}, s))
			}
			for _, p := range preds {
				for _, fn := range []string{"Partition", "Filter", "Reject", "DropWhile", "DropRightWhile"} {
					r.call(hop(fn, p, nil, s))
				}
			}
			for _, f := range keyFns {
				r.call(hop("GroupBy", f, nil, s))
				r.call(hop("Map", f, nil, s))
			}
			for _, fn := range []string{"Reverse", "Shuffle", "ForEach", "ForEachRight"} {
				r.call(hop(fn, "", nil, s))
			}
			r.call(hop("Reduce", "", []int{0}, s))
			r.call(hop("Reduce", "", []int{7}, s))
		}
		s3 := slicesUpTo(vals, 3)
		for i, a := range s3 {
			for j, b := range s3 {
				r.call(hop("Merge", "", nil, a, b))
				if (i+j)%5 == 0 {
					r.call(hop("Merge", "", nil, a, b, s3[(i*7+j)%len(s3)]))
				}
			}
			r.call(hop("Merge", "", nil, a))
		}
		// all square matrices up to 3x3 over 2 values
		for n := 1; n <= 3; n++ {
			cells := n * n
			for code := 0; code < 1<<cells; code++ {
				m := make([][]int, n)
				for i := range m {
					m[i] = make([]int, n)
					for j := range m[i] {
						m[i][j] = 1 + (code>>(i*n+j))&1
					}
				}
				r.call(hop("Zip", "", nil, m...))
				r.call(hop("Unzip", "", nil, m...))
			}
		}
		// larger squares with distinct entries (a transpose that only goes wrong from some size on)
		for n := 4; n <= 9; n++ {
			m := make([][]int, n)
			for i := range m {
				m[i] = make([]int, n)
				for j := range m[i] {
					m[i][j] = i*n + j
				}
			}
			r.call(hop("Zip", "", nil, m...))
			r.call(hop("Unzip", "", nil, m...))
		}
		for _, n := range nests(3, nl) {
			o := hop("Flatten", "", nil)
			o.X = n
			r.call(o)
		}
		// strings over runes {a, B, ö(2 bytes), ' '}: ReverseStr
		for _, s := range runeStrings([]string{"a", "B", "ö", " "}, 5) {
			r.call(hop("ReverseStr", "", nil, bs(s)))
		}
		for i := 0; i < 1000; i++ {
			a := randSlice(rng, 20, 9)
			r.call(hop("Chunk", "", []int{1 + rng.Intn(25)}, a))
			if i%50 == 0 { // counts at the limits of int
				for _, x := range xints {
					r.call(hop("Drop", "", []int{x}, a))
				}
				r.call(hop("Chunk", "", []int{2000000000}, a))
				r.call(hop("Chunk", "", []int{2000000001}, a))
			}
			r.call(hop("Drop", "", []int{rng.Intn(50) - 25}, a))
			p := preds[rng.Intn(len(preds))]
			r.call(hop("Partition", p, nil, a))
			r.call(hop("Reject", p, nil, a))
			r.call(hop("DropRightWhile", p, nil, a))
			r.call(hop("GroupBy", keyFns[rng.Intn(len(keyFns))], nil, a))
			r.call(hop("Shuffle", "", nil, a))
			r.call(hop("Reverse", "", nil, a))
			r.call(hop("ForEachRight", "", nil, a))
		}
		for _, n := range []int{33, 65, 130, 300} {
			a := bigSlice(rng, n, 9)
			for _, size := range []int{1, 7, 32, 33, n - 1, n, n + 1} {
				r.call(hop("Chunk", "", []int{size}, a))
			}
			for _, d := range []int{-n - 1, -n, -33, -1, 0, 1, 32, 33, n, n + 1} {
				r.call(hop("Drop", "", []int{d}, a))
			}
			for _, p := range preds {
				for _, fn := range []string{"Partition", "Filter", "Reject", "DropWhile", "DropRightWhile"} {
					r.call(hop(fn, p, nil, a))
				}
			}
			for _, f := range keyFns {
				r.call(hop("GroupBy", f, nil, a))
				r.call(hop("Map", f, nil, a))
			}
			for _, fn := range []string{"Reverse", "Shuffle", "ForEach", "ForEachRight"} {
				r.call(hop(fn, "", nil, a))
			}
			r.call(hop("Reduce", "", []int{0}, a))
			r.call(hop("Merge", "", nil, a, bigSlice(rng, n, 9)))
		}
	})
}

func runeStrings(alpha []string, n int) []string {
	out := []string{""}
	level := []string{""}
	for l := 1; l <= n; l++ {
		var nl []string
		for _, p := range level {
			for _, c := range alpha {
				nl = append(nl, p+c)
			}
		}
		out = append(out, nl...)
		level = nl
	}
	return out
}
