//go:build vshim

package main

import (
	"fmt"
	"math/rand"
	"time"

	"github.com/esimov/gogu"
	"github.com/esimov/gogu/zzshim/vtime"
	"verifharness/tt"
)

// C20, first half: gogu.Delay and gogu.NewDebounce on the virtual clock.
// One time unit = 1 ms of virtual time. Every scheduled function logs its
// own id and the virtual instant at which it ran.

type dbProj struct {
	Fired int `json:"fired"`
}

type dbSys struct {
	call   func(func())
	cancel func()
	timer  interface{ Stop() bool }
	fires  []int
	total  int
	wait   int
}

func (s *dbSys) fn(id int) func() {
	return func() {
		s.fires = append(s.fires, id, int(vtime.Elapsed()/time.Millisecond))
		s.total++
		if id >= 100 && id < 1000 && s.call != nil {
			// a new call arrives while this one is still running
			s.call(s.fn(id + 1000))
			if id >= 200 && id < 300 {
				// ... and this one goes on running for longer than the wait of the new call
				vtime.Advance(time.Duration(s.wait+1) * time.Millisecond)
			}
		}
	}
}

func (s *dbSys) Do(o tt.Op) tt.Res {
	s.fires = nil
	switch o.N {
	case "newd":
		vtime.Enable(false)
		s.wait = o.A[0]
		s.call, s.cancel = gogu.NewDebounce(time.Duration(o.A[0]) * time.Millisecond)
	case "delay":
		vtime.Enable(false)
		s.timer = gogu.Delay(time.Duration(o.A[0])*time.Millisecond, s.fn(o.A[1]))
	case "call":
		s.call(s.fn(o.A[0]))
	case "cancel":
		s.cancel()
	case "stop":
		s.timer.Stop()
	case "tick":
		vtime.Advance(time.Duration(o.A[0]) * time.Millisecond)
	default:
		panic("debounce driver: unknown op " + o.N)
	}
	return tt.Res{Ok: true, S: append([]int{}, s.fires...)}
}

func (s *dbSys) Proj() any { return dbProj{Fired: s.total} }

func dbExplorer(depth int) *tt.Explorer {
	return &tt.Explorer{
		New:      func() tt.Sys { return &dbSys{} },
		ZeroProj: dbProj{},
		Ops: func(path []tt.Op) []tt.Op {
			if len(path) == 0 {
				return []tt.Op{op("newd", 4), op("newd", 1), op("delay", 4, 1), op("delay", 0, 1)}
			}
			if len(path) > depth {
				return nil
			}
			ticks := []tt.Op{op("tick", 1), op("tick", 3), op("tick", 4), op("tick", 5)}
			if path[0].N == "delay" {
				return append(ticks, op("stop"))
			}
			return append(ticks, op("call", len(path)+1), op("call", 100+len(path)), op("call", 200+len(path)), op("cancel"))
		},
		SplitDepth: 2,
	}
}

// long bursts: 1..50 calls with gaps below / at / above the wait, cancels anywhere
func dbLinear(cfg Config, file string, runs, steps int) (int, error) {
	ls, err := tt.NewLinearSet(file, dbProj{})
	if err != nil {
		return 0, err
	}
	rng := rand.New(rand.NewSource(cfg.Seed*104729 + int64(cfg.Shard+1)))
	for r := 0; r < runs; r++ {
		wait := []int{5, 20, 50}[r%3]
		s := &dbSys{}
		burst := 0
		ls.Run(s, func(st int) (tt.Op, bool) {
			if st == 0 {
				return op("newd", wait), true
			}
			if st > steps {
				return tt.Op{}, false
			}
			if burst > 0 {
				burst--
				if rng.Intn(2) == 0 {
					return op("tick", 1+rng.Intn(wait-1)), true
				}
				return op("call", st), true
			}
			switch x := rng.Intn(100); {
			case x < 25:
				burst = 1 + rng.Intn(50)
				return op("call", st), true
			case x < 35:
				return op("cancel"), true
			case x < 55:
				return op("tick", wait), true
			case x < 70:
				return op("tick", wait+1+rng.Intn(wait)), true
			default:
				return op("tick", 1+rng.Intn(wait)), true
			}
		})
	}
	return ls.Close()
}

func init() {
	drivers["debounce"] = driver{
		run: func(cfg Config) (*Summary, error) {
			s := &Summary{Extra: map[string]any{}}
			if cfg.Shard < 0 {
				return nil, fmt.Errorf("debounce owns the process-global virtual clock: run one process per shard (-shard i)")
			}
			st, err := dbExplorer(cfg.Depth).ExploreShard(cfg.Out+".tree", cfg.Shard, cfg.Shards)
			if err != nil {
				return nil, err
			}
			s.add(st)
			runs, steps := 3, 600
			if cfg.Tier == "thorough" {
				runs, steps = 6, 3000
			}
			f := fmt.Sprintf("%s.%d.lin.ndjson", cfg.Out, cfg.Shard)
			n, err := dbLinear(cfg, f, runs, steps)
			if err != nil {
				return nil, err
			}
			s.Files = append(s.Files, f)
			s.Nodes += n
			s.Leaves += runs
			return s, nil
		},
		newSys: func(variant string) (func() tt.Sys, any) {
			return func() tt.Sys { return &dbSys{} }, dbProj{}
		},
	}
}
