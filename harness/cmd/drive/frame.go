package main

import (
	"fmt"
	"math/rand"
	"reflect"
	"sync"
	"unsafe"

	"github.com/esimov/gogu"
	"github.com/esimov/gogu/heap"
	"verifharness/tt"
)

// C16: helpers do not disturb their arguments or each other's results.
// Arguments live in backing arrays with spare capacity filled with sentinels (-9).

type sliceHelper struct {
	name    string
	inplace int // 0, or the 1-based index of the argument the contract allows to change
	call    func(a, b []int) [][]int
}

type mapHelper struct {
	name    string
	inplace int
	call    func(m map[int]int) (maps []map[int]int, slices [][]int)
}

func isOdd(x int) bool { return x%2 != 0 }

var shuffleMu sync.Mutex

var sliceHelpers = []sliceHelper{
	{"Unique", 0, func(a, b []int) [][]int { return [][]int{gogu.Unique(a)} }},
	{"UniqueBy", 0, func(a, b []int) [][]int { return [][]int{gogu.UniqueBy(a, func(x int) int { return x % 2 })} }},
	{"Duplicate", 0, func(a, b []int) [][]int { return [][]int{gogu.Duplicate(a)} }},
	{"Reverse", 1, func(a, b []int) [][]int { return [][]int{gogu.Reverse(a)} }},
	{"Reject", 1, func(a, b []int) [][]int { return [][]int{gogu.Reject(a, isOdd)} }},
	{"Filter", 0, func(a, b []int) [][]int { return [][]int{gogu.Filter(a, isOdd)} }},
	{"Partition", 0, func(a, b []int) [][]int { p := gogu.Partition(a, isOdd); return [][]int{p[0], p[1]} }},
	{"DropWhile", 0, func(a, b []int) [][]int { return [][]int{gogu.DropWhile(a, isOdd)} }},
	{"DropRightWhile", 0, func(a, b []int) [][]int { return [][]int{gogu.DropRightWhile(a, isOdd)} }},
	// predicates that drop / keep everything: the branches on which a helper has nothing to return
	{"DropRightWhileAll", 0, func(a, b []int) [][]int {
		return [][]int{gogu.DropRightWhile(a, func(int) bool { return true }), gogu.DropRightWhile(a, func(int) bool { return false })}
	}},
	{"DropWhileAll", 0, func(a, b []int) [][]int {
		return [][]int{gogu.DropWhile(a, func(int) bool { return true }), gogu.DropWhile(a, func(int) bool { return false })}
	}},
	{"FilterAll", 0, func(a, b []int) [][]int {
		return [][]int{gogu.Filter(a, func(int) bool { return true }), gogu.Filter(a, func(int) bool { return false })}
	}},
	// the two-argument forms take their numbers from the caller's slice (a spread call)
	{"Range2", 0, func(a, b []int) [][]int {
		if len(a) < 2 {
			return nil
		}
		r1, _ := gogu.Range(a[:2]...)
		r2, _ := gogu.RangeRight(a[:2]...)
		r3, _ := gogu.Range(a[:1]...)
		return [][]int{r1, r2, r3}
	}},
	// one flipped function per scenario, called again and again: its results must stay independent
	{"FlipA", 0, func(a, b []int) [][]int { return [][]int{frameFlip(a...)} }},
	{"FlipB", 0, func(a, b []int) [][]int { return [][]int{frameFlip(b...)} }},
	{"Map", 0, func(a, b []int) [][]int { return [][]int{gogu.Map(a, func(x int) int { return x + 1 })} }},
	{"Chunk", 0, func(a, b []int) [][]int { return gogu.Chunk(a, 2) }},
	{"Drop", 0, func(a, b []int) [][]int { return [][]int{gogu.Drop(a, 1), gogu.Drop(a, -1)} }},
	{"Shuffle", 0, func(a, b []int) [][]int { // seeded under a lock: prefixes are re-executed and must repeat
		shuffleMu.Lock()
		defer shuffleMu.Unlock()
		rand.Seed(42)
		return [][]int{gogu.Shuffle(a)}
	}},
	{"GroupBy", 0, func(a, b []int) [][]int {
		g := gogu.GroupBy(a, func(x int) int { return x % 2 })
		return [][]int{g[0], g[1]}
	}},
	{"Scalars", 0, func(a, b []int) [][]int { // helpers returning scalars: only the argument frame matters
		gogu.Sum(a)
		gogu.IndexOf(a, 2)
		gogu.LastIndexOf(a, 2)
		gogu.Contains(a, 2)
		gogu.FindMin(a)
		gogu.FindMax(a)
		gogu.Some(a, isOdd)
		gogu.Every(a, isOdd)
		gogu.FindIndex(a, isOdd)
		gogu.FindLastIndex(a, isOdd)
		gogu.FindAll(a, isOdd)
		gogu.DuplicateWithIndex(a)
		gogu.Nth(a, 1)
		gogu.ForEach(a, func(int) {})
		gogu.ForEachRight(a, func(int) {})
		gogu.Reduce(a, func(v, acc int) int { return acc + v }, 0)
		gogu.FindMinBy(a, func(x int) int { return -x })
		gogu.SumBy(a, func(x int) int { return x })
		if len(a) > 0 {
			gogu.Min(a...)
			gogu.Max(a...)
			gogu.Mean(a)
		}
		return nil
	}},
	{"Merge", 0, func(a, b []int) [][]int { return [][]int{gogu.Merge(a, b)} }},
	{"MergeRev", 0, func(a, b []int) [][]int { return [][]int{gogu.Merge(b, a, a)} }},
	{"Intersection", 0, func(a, b []int) [][]int { return [][]int{gogu.Intersection(a, b)} }},
	// the caller's own list of lists handed over with a spread call: its order is the caller's too
	{"IntersectionSp", 0, func(a, b []int) [][]int { return [][]int{gogu.Intersection(frameOuter...)} }},
	{"IntersectionBySp", 0, func(a, b []int) [][]int {
		return [][]int{gogu.IntersectionBy(func(x int) int { return x % 3 }, frameOuter...)}
	}},
	{"MergeSp", 0, func(a, b []int) [][]int { return [][]int{gogu.Merge([]int{7}, frameOuter...)} }},
	{"ZipSq", 0, func(a, b []int) [][]int {
		if len(a) != 2 || len(b) != 2 {
			return nil
		}
		return append(gogu.Zip(a, b), gogu.Unzip(b, a)...)
	}},
	{"IntersectionBy", 0, func(a, b []int) [][]int {
		return [][]int{gogu.IntersectionBy(func(x int) int { return x % 2 }, a, b)}
	}},
	{"Difference", 0, func(a, b []int) [][]int { return [][]int{gogu.Difference(a, b)} }},
	{"DifferenceBy", 0, func(a, b []int) [][]int {
		return [][]int{gogu.DifferenceBy(a, b, func(x int) int { return x % 2 })}
	}},
	{"Without", 0, func(a, b []int) [][]int { return [][]int{gogu.Without[int, int](a, b...)} }},
	{"ToSlice", 0, func(a, b []int) [][]int { return [][]int{gogu.ToSlice(a...)} }},
	{"Union", 0, func(a, b []int) [][]int { r, _ := gogu.Union[int]([]any{a, b}); return [][]int{r} }},
	{"Flatten", 0, func(a, b []int) [][]int { r, _ := gogu.Flatten[int]([]any{a, []any{b}}); return [][]int{r} }},
	// the caller's own nested value ({a, {b, {5, a}, 6}, b}): its []any nodes are arguments too
	{"FlattenNest", 0, func(a, b []int) [][]int { r, _ := gogu.Flatten[int](frameNest); return [][]int{r} }},
	{"UnionNest", 0, func(a, b []int) [][]int { r, _ := gogu.Union[int](frameNest); return [][]int{r} }},
	{"heap.FromSlice", 1, func(a, b []int) [][]int {
		return [][]int{heap.FromSlice(a, func(x, y int) bool { return x < y }).GetValues()}
	}},
	{"heap.Sort", 1, func(a, b []int) [][]int { return [][]int{heap.Sort(a, func(x, y int) bool { return x > y })} }},
}

var mapHelpers = []mapHelper{
	{"Keys", 0, func(m map[int]int) ([]map[int]int, [][]int) { return nil, [][]int{asc(gogu.Keys(m))} }},
	{"Values", 0, func(m map[int]int) ([]map[int]int, [][]int) { return nil, [][]int{asc(gogu.Values(m))} }},
	{"Pick", 0, func(m map[int]int) ([]map[int]int, [][]int) {
		r, _ := gogu.Pick(m, frameKeys...)
		return []map[int]int{r}, nil
	}},
	{"PickBy", 0, func(m map[int]int) ([]map[int]int, [][]int) {
		return []map[int]int{gogu.PickBy(m, func(k, v int) bool { return v > 1 })}, nil
	}},
	{"Omit", 1, func(m map[int]int) ([]map[int]int, [][]int) { return []map[int]int{gogu.Omit(m, frameKeys...)}, nil }},
	{"OmitBy", 1, func(m map[int]int) ([]map[int]int, [][]int) {
		return []map[int]int{gogu.OmitBy(m, func(k, v int) bool { return v > 2 })}, nil
	}},
	{"FilterMap", 0, func(m map[int]int) ([]map[int]int, [][]int) { return []map[int]int{gogu.FilterMap(m, isOdd)}, nil }},
	{"MapValues", 0, func(m map[int]int) ([]map[int]int, [][]int) {
		return []map[int]int{gogu.MapValues(m, func(v int) int { return v + 1 })}, nil
	}},
	{"MapKeys", 0, func(m map[int]int) ([]map[int]int, [][]int) {
		return []map[int]int{gogu.MapKeys(m, func(k, v int) int { return k + 10 })}, nil
	}},
	{"Invert", 0, func(m map[int]int) ([]map[int]int, [][]int) { return []map[int]int{gogu.Invert(m)}, nil }},
	{"Find", 0, func(m map[int]int) ([]map[int]int, [][]int) { return []map[int]int{gogu.Find(m, isOdd)}, nil }},
	{"FindByKey", 0, func(m map[int]int) ([]map[int]int, [][]int) { return []map[int]int{gogu.FindByKey(m, isOdd)}, nil }},
	{"MapUnique", 0, func(m map[int]int) ([]map[int]int, [][]int) { return []map[int]int{gogu.MapUnique(m)}, nil }},
	{"MapCollection", 0, func(m map[int]int) ([]map[int]int, [][]int) {
		return nil, [][]int{asc(gogu.MapCollection(m, func(v int) int { return v * 2 }))}
	}},
	{"MapScalars", 0, func(m map[int]int) ([]map[int]int, [][]int) {
		gogu.MapEvery(m, isOdd)
		gogu.MapSome(m, isOdd)
		gogu.MapContains(m, 2)
		gogu.FindKey(m, isOdd)
		return nil, nil
	}},
	{"Pluck", 0, func(m map[int]int) ([]map[int]int, [][]int) {
		return nil, [][]int{gogu.Pluck([]map[int]int{m, m}, 1)}
	}},
	{"PartitionMap", 0, func(m map[int]int) ([]map[int]int, [][]int) {
		p := gogu.PartitionMap([]map[int]int{m}, func(x map[int]int) bool { return len(x) > 1 })
		return append(append([]map[int]int{}, p[0]...), p[1]...), nil
	}},
	{"FilterMapCollection", 0, func(m map[int]int) ([]map[int]int, [][]int) {
		return gogu.FilterMapCollection([]map[int]int{m}, isOdd), nil
	}},
}

// frameFlip is created once per scenario (see "bufs")
var frameFlip func(args ...int) []int

// frameKeys is the caller's key list handed to the variadic map helpers with a spread call
// (Pick(m, ks...), Omit(m, ks...)): a view of length 3 onto a backing array with spare capacity.
var frameKeys []int

// frameOuter is the caller's list of lists handed to the variadic slice helpers with a spread call
// (Intersection(ls...), Merge(s, ls...)): {b, a, b[:1], a}, a view of length 4 onto a backing array of 6.
// Its fingerprint - which buffer each entry is a view of, and how long - is the third "buffer" of the scenario.
var frameOuter [][]int

// frameNest is the caller's nested value handed to Flatten / Union: {a, {b, {5, a}, 6}, b}.  Its fingerprint -
// what every entry of its three []any nodes is - is the fourth "buffer" of the scenario.
var frameNest []any

func nestPrint(nodes [][]any, bufs [][]int) []int {
	fp := []int{}
	for _, nd := range nodes {
		for _, e := range nd {
			switch v := e.(type) {
			case int:
				fp = append(fp, 1000+v)
			case []int:
				fp = append(fp, aliasOf(v, bufs)*100+len(v))
			case []any:
				id := 999
				for k, known := range nodes {
					if len(v) > 0 && len(known) > 0 && &v[0] == &known[0] && len(v) == len(known) {
						id = 900 + k
					}
				}
				fp = append(fp, id)
			default:
				fp = append(fp, -1)
			}
		}
	}
	return fp
}

func outerPrint(o [][]int, bufs [][]int) []int {
	o = o[:cap(o)]
	fp := make([]int, len(o))
	for i, e := range o {
		if e == nil {
			fp[i] = -9
		} else {
			fp[i] = aliasOf(e, bufs)*100 + len(e)
		}
	}
	return fp
}

type frameSys struct {
	keys   []int // backing array of frameKeys
	outer  [][]int
	nest   [][]any // the three []any nodes of frameNest, outermost first
	kind   string
	bufs   [][]int // full backing arrays (len == cap)
	lens   []int
	m      map[int]int
	rs     [][]int       // earlier slice results (headers kept: re-read through the same reference)
	rm     []map[int]int // earlier map results
	rorder []int         // 0: next of rs, 1: next of rm (order of results)
}

func aliasOf(r []int, bufs [][]int) int {
	if cap(r) == 0 {
		return 0
	}
	p := uintptr(unsafe.Pointer(unsafe.SliceData(r)))
	for i, b := range bufs {
		if cap(b) == 0 {
			continue
		}
		base := uintptr(unsafe.Pointer(unsafe.SliceData(b)))
		if p >= base && p < base+uintptr(cap(b))*unsafe.Sizeof(int(0)) {
			return i + 1
		}
	}
	return 0
}

func (s *frameSys) reread() [][]int {
	out := [][]int{}
	si, mi := 0, 0
	for _, k := range s.rorder {
		if k == 0 {
			out = append(out, cp(s.rs[si]))
			si++
		} else {
			out = append(out, flatMap(s.rm[mi]))
			mi++
		}
	}
	return out
}

func (s *frameSys) Do(o tt.Op) tt.Res {
	switch o.N {
	case "bufs":
		frameFlip = gogu.Flip(func(args ...int) []int { return append([]int{}, args...) })
		s.kind = o.F
		if s.kind == "map" {
			s.m = mapOf(o.L[0])
			s.keys = cp(o.L[1])
			return tt.Res{Ok: true}
		}
		for _, l := range o.L[:2] {
			b := make([]int, len(l))
			copy(b, l)
			s.bufs = append(s.bufs, b)
		}
		s.lens = cp(o.A)
		{
			a, b := s.bufs[0][:s.lens[0]], s.bufs[1][:s.lens[1]]
			s.outer = make([][]int, 4, 6)
			s.outer[0], s.outer[1], s.outer[2], s.outer[3] = b, a, b[:1], a
			if fp := outerPrint(s.outer, s.bufs); !reflect.DeepEqual(fp, o.L[2]) {
				panic(fmt.Sprintf("frame driver: outer fingerprint %v, scenario says %v", fp, o.L[2]))
			}
			in2 := []any{5, a}
			in1 := []any{b, in2, 6}
			s.nest = [][]any{{a, in1, b}, in1, in2}
			if fp := nestPrint(s.nest, s.bufs); !reflect.DeepEqual(fp, o.L[3]) {
				panic(fmt.Sprintf("frame driver: nest fingerprint %v, scenario says %v", fp, o.L[3]))
			}
		}
		return tt.Res{Ok: true}
	case "call":
		var aliases []int
		var newRes [][]int
		if s.kind == "map" {
			var h *mapHelper
			for i := range mapHelpers {
				if mapHelpers[i].name == o.F {
					h = &mapHelpers[i]
				}
			}
			frameKeys = s.keys[:3]
			maps, slices := h.call(s.m)
			after := [][]int{flatMap(s.m), cp(s.keys)}
			rr := s.reread()
			for _, r := range maps {
				a := 0
				if r != nil && reflect.ValueOf(r).Pointer() == reflect.ValueOf(s.m).Pointer() {
					a = 1
				}
				aliases = append(aliases, a)
				newRes = append(newRes, flatMap(r))
				s.rm = append(s.rm, r)
				s.rorder = append(s.rorder, 1)
			}
			for _, r := range slices {
				aliases = append(aliases, 0)
				newRes = append(newRes, cp(r))
				s.rs = append(s.rs, r)
				s.rorder = append(s.rorder, 0)
			}
			ll := append(append(after, rr...), newRes...)
			return tt.Res{Ok: true, S: aliases, H: hl(ll)}
		}
		var h *sliceHelper
		for i := range sliceHelpers {
			if sliceHelpers[i].name == o.F {
				h = &sliceHelpers[i]
			}
		}
		a := s.bufs[0][:s.lens[0]] // cap = the whole backing array: spare capacity is reachable
		b := s.bufs[1][:s.lens[1]]
		frameOuter = s.outer[:4]
		frameNest = s.nest[0]
		res := h.call(a, b)
		after := [][]int{cp(s.bufs[0]), cp(s.bufs[1]), outerPrint(s.outer, s.bufs), nestPrint(s.nest, s.bufs)}
		rr := s.reread()
		for _, r := range res {
			aliases = append(aliases, aliasOf(r, s.bufs))
			newRes = append(newRes, cp(r))
			s.rs = append(s.rs, r)
			s.rorder = append(s.rorder, 0)
		}
		ll := append(append(after, rr...), newRes...)
		return tt.Res{Ok: true, S: aliases, H: hl(ll)}
	}
	panic("frame driver: unknown op " + o.N)
}

func (s *frameSys) Proj() any { return 0 }

func frameExplorer(depth int) *tt.Explorer {
	contentsA := [][]int{{}, {1}, {2, 1}, {1, 2, 3}, {3, 1, 2, 1}, {2, 4, 1, 3, 5}}
	contentsB := [][]int{{2}, {1, 3}}
	withSpare := func(c []int, spare int) []int {
		o := cp(c)
		for i := 0; i < spare; i++ {
			o = append(o, -9)
		}
		return o
	}
	mapsIn := [][]int{{}, {1, 1}, {1, 2, 2, 2}, {1, 3, 2, 1, 3, 3}, {1, 1, 2, 2, 3, 3, 4, 1}}
	return &tt.Explorer{
		New:      func() tt.Sys { return &frameSys{} },
		ZeroProj: 0,
		Ops: func(path []tt.Op) []tt.Op {
			if len(path) == 0 {
				var r []tt.Op
				for _, a := range contentsA {
					for _, b := range contentsB {
						for _, spare := range []int{0, 4} {
							fa := 100 + len(a)
							if len(a)+spare == 0 {
								fa = 0 // an empty slice without capacity is a view of nothing
							}
							o := tt.Op{N: "bufs", F: "slice", A: []int{len(a), len(b), 4},
								L: [][]int{withSpare(a, spare), withSpare(b, spare), {200 + len(b), fa, 201, fa, -9, -9},
									{fa, 901, 200 + len(b), 200 + len(b), 902, 1006, 1005, fa}}}
							r = append(r, o)
						}
					}
				}
				for _, m := range mapsIn {
					r = append(r, tt.Op{N: "bufs", F: "map", A: []int{len(m), 3}, L: [][]int{cp(m), {1, 3, 2, -9, -9}}})
				}
				return r
			}
			if len(path) > depth {
				return nil
			}
			var r []tt.Op
			if path[0].F == "map" {
				for _, h := range mapHelpers {
					r = append(r, tt.Op{N: "call", F: h.name, A: []int{h.inplace}})
				}
				return r
			}
			for _, h := range sliceHelpers {
				r = append(r, tt.Op{N: "call", F: h.name, A: []int{h.inplace}})
			}
			return r
		},
		SplitDepth: 1,
	}
}

func init() {
	drivers["frame"] = driver{
		run: func(cfg Config) (*Summary, error) {
			s := &Summary{Extra: map[string]any{"slice_helpers": len(sliceHelpers), "map_helpers": len(mapHelpers)}}
			e := frameExplorer(cfg.Depth)
			roots := e.Ops(nil)
			// every scenario (buffers, helper 1, helper 2[, helper 3]) is ONE execution: helpers whose
			// result depends on Go's map iteration order must not be re-executed between the calls
			shards := cfg.Shards
			sets := make([]*tt.LinearSet, shards)
			for i := range sets {
				f := fmt.Sprintf("%s.%d.lin.ndjson", cfg.Out, i)
				ls, err := tt.NewLinearSet(f, 0)
				if err != nil {
					return nil, err
				}
				sets[i] = ls
				s.Files = append(s.Files, f)
			}
			n := 0
			var rec func(prefix []tt.Op)
			rec = func(prefix []tt.Op) {
				next := e.Ops(prefix)
				if len(prefix) > cfg.Depth || next == nil {
					ops := prefix
					sets[n%shards].Run(&frameSys{}, func(step int) (tt.Op, bool) {
						if step >= len(ops) {
							return tt.Op{}, false
						}
						return ops[step], true
					})
					n++
					return
				}
				for _, o := range next {
					rec(append(append([]tt.Op{}, prefix...), o))
				}
			}
			for _, r := range roots {
				rec([]tt.Op{r})
			}
			for _, ls := range sets {
				l, err := ls.Close()
				if err != nil {
					return nil, err
				}
				s.Nodes += l
			}
			s.Leaves = n
			s.Samples = []string{}
			return s, nil
		},
		newSys: func(variant string) (func() tt.Sys, any) {
			return func() tt.Sys { return &frameSys{} }, 0
		},
	}
}
