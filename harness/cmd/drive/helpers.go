package main

import (
	"encoding/json"
	"math"
	"sort"

	"github.com/esimov/gogu"
	"verifharness/tt"
)

// Pure helpers (C11-C15): a stateless dispatcher from recorded call -> real gogu function.
// Encodings (Appendix A.2, spec/helpers/*.tla):
//   op.l[i]  i-th slice / string (byte codes) / map (k1,v1,k2,v2,.. sorted by key) argument
//   op.a     scalar arguments, op.f named callback (spec/helpers/Fn.tla), op.x nested argument
//   res.s    slice / string result, res.v scalar, res.ok boolean result or "no error"
//   res.h.ll list-of-lists result (chunks, matrix rows, map as sorted [k,v] pairs, groups)
//   res.h.log callback invocation log, res.h.e an error was returned

// ---- named callback family (mirrored by Fn.tla)
func fnInt(name string) func(int) int {
	switch name {
	case "id":
		return func(x int) int { return x }
	case "mod2":
		return func(x int) int { return x % 2 }
	case "div2":
		return func(x int) int { return x / 2 }
	case "const0":
		return func(x int) int { return 0 }
	case "neg":
		return func(x int) int { return -x }
	case "sq":
		return func(x int) int { return x * x }
	}
	panic("unknown int function " + name)
}

func predInt(name string) func(int) bool {
	switch name {
	case "isOdd":
		return func(x int) bool { return x%2 != 0 }
	case "gt1":
		return func(x int) bool { return x > 1 }
	case "true":
		return func(x int) bool { return true }
	case "false":
		return func(x int) bool { return false }
	case "eq2":
		return func(x int) bool { return x == 2 }
	}
	panic("unknown predicate " + name)
}

func pred2(name string) func(k, v int) bool {
	switch name {
	case "kEven":
		return func(k, v int) bool { return k%2 == 0 }
	case "vGt1":
		return func(k, v int) bool { return v > 1 }
	case "kEqV":
		return func(k, v int) bool { return k == v }
	case "false":
		return func(k, v int) bool { return false }
	}
	panic("unknown pair predicate " + name)
}

func predMap(name string) func(m map[int]int) bool {
	switch name {
	case "hasKey1":
		return func(m map[int]int) bool { _, ok := m[1]; return ok }
	case "sizeGt1":
		return func(m map[int]int) bool { return len(m) > 1 }
	}
	panic("unknown map predicate " + name)
}

func cmpInt(name string) gogu.CompFn[int] {
	switch name {
	case "lt":
		return func(a, b int) bool { return a < b }
	case "gt":
		return func(a, b int) bool { return a > b }
	case "key":
		return func(a, b int) bool { return a/10 < b/10 }
	}
	panic("unknown comparator " + name)
}

// ---- encoders
func cp(s []int) []int { return append([]int{}, s...) }

func mapOf(flat []int) map[int]int {
	m := map[int]int{}
	for i := 0; i+1 < len(flat); i += 2 {
		m[flat[i]] = flat[i+1]
	}
	return m
}

func pairs(m map[int]int) [][]int {
	out := [][]int{}
	for k, v := range m {
		out = append(out, []int{k, v})
	}
	sort.Slice(out, func(i, j int) bool { return out[i][0] < out[j][0] })
	return out
}

func str(b []int) string     { return strOf(b) }
func bs(s string) []int      { return bytesOf(s) }
func hl(ll [][]int) *tt.HRes { return &tt.HRes{LL: ll} }

// nested argument: {"t":"v","v":3} | {"t":"l","l":[..]} | {"t":"s","s":[1,2]} ([]int leaf slice) | {"t":"x"} (malformed)
type nest struct {
	T string `json:"t"`
	V int    `json:"v"`
	L []nest `json:"l"`
	S []int  `json:"s"`
}

// MarshalJSON emits only the fields of the node's kind (no nulls: TLC's Json rejects them).
func (n nest) MarshalJSON() ([]byte, error) {
	switch n.T {
	case "v":
		return json.Marshal(map[string]any{"t": "v", "v": n.V})
	case "s":
		return json.Marshal(map[string]any{"t": "s", "s": append([]int{}, n.S...)})
	case "l":
		return json.Marshal(map[string]any{"t": "l", "l": append([]nest{}, n.L...)})
	}
	return json.Marshal(map[string]any{"t": "x"})
}

// build turns the description into the Go value. All slice leaves of one argument are consecutive
// windows onto ONE backing array (what Chunk hands out): a helper that appends into a leaf it was given
// overwrites the leaves behind it, and its result shows it.
func (n nest) build() any {
	var total int
	var count func(n nest)
	count = func(n nest) {
		if n.T == "s" {
			total += len(n.S)
		}
		for _, c := range n.L {
			count(c)
		}
	}
	count(n)
	arena := make([]int, 0, total+4)
	var mk func(n nest) any
	mk = func(n nest) any {
		switch n.T {
		case "v":
			return n.V
		case "s":
			off := len(arena)
			arena = append(arena, n.S...)
			return arena[off:len(arena):cap(arena)]
		case "l":
			out := make([]any, 0, len(n.L))
			for _, c := range n.L {
				out = append(out, mk(c))
			}
			return out
		default:
			return "malformed" // a string where ints are expected
		}
	}
	return mk(n)
}

func nestOf(x any) nest {
	switch v := x.(type) {
	case nest:
		return v
	case map[string]any: // from JSON (replay)
		n := nest{T: v["t"].(string)}
		if f, ok := v["v"].(float64); ok {
			n.V = int(f)
		}
		if l, ok := v["l"].([]any); ok {
			for _, c := range l {
				n.L = append(n.L, nestOf(c))
			}
		}
		if l, ok := v["s"].([]any); ok {
			for _, c := range l {
				n.S = append(n.S, int(c.(float64)))
			}
		}
		return n
	}
	panic("bad nested argument")
}

type helperSys struct{}

func (helperSys) Proj() any { return 0 }

func (helperSys) Do(o tt.Op) tt.Res {
	f, ok := helperFns[o.N]
	if !ok {
		panic("helpers driver: unknown function " + o.N)
	}
	r := f(o)
	if r.H == nil {
		r.H = &tt.HRes{}
	}
	return r
}

var helperFns = map[string]func(o tt.Op) tt.Res{}

func rs(s []int) tt.Res     { return tt.Res{Ok: true, S: cp(s)} }
func rv(v int) tt.Res       { return tt.Res{Ok: true, V: v} }
func rb(b bool) tt.Res      { return tt.Res{Ok: b} }
func rll(ll [][]int) tt.Res { return tt.Res{Ok: true, H: hl(ll)} }
func rerr(s []int, err error) tt.Res {
	return tt.Res{Ok: err == nil, S: cp(s), H: &tt.HRes{E: err != nil}}
}

func init() {
	h := helperFns
	// ------------------------------------------------------------------ C11
	h["Unique"] = func(o tt.Op) tt.Res { return rs(gogu.Unique(cp(o.L[0]))) }
	h["UniqueBy"] = func(o tt.Op) tt.Res { return rs(gogu.UniqueBy(cp(o.L[0]), fnInt(o.F))) }
	h["Union"] = func(o tt.Op) tt.Res {
		r, err := gogu.Union[int](nestOf(o.X).build())
		return rerr(r, err)
	}
	lists := func(o tt.Op) [][]int {
		out := make([][]int, len(o.L))
		for i := range o.L {
			out[i] = cp(o.L[i])
		}
		return out
	}
	h["Intersection"] = func(o tt.Op) tt.Res { return rs(gogu.Intersection(lists(o)...)) }
	h["IntersectionBy"] = func(o tt.Op) tt.Res { return rs(gogu.IntersectionBy(fnInt(o.F), lists(o)...)) }
	h["Difference"] = func(o tt.Op) tt.Res { return rs(gogu.Difference(cp(o.L[0]), cp(o.L[1]))) }
	h["DifferenceBy"] = func(o tt.Op) tt.Res { return rs(gogu.DifferenceBy(cp(o.L[0]), cp(o.L[1]), fnInt(o.F))) }
	h["Without"] = func(o tt.Op) tt.Res { return rs(gogu.Without[int, int](cp(o.L[0]), cp(o.L[1])...)) }
	h["Duplicate"] = func(o tt.Op) tt.Res { return rs(gogu.Duplicate(cp(o.L[0]))) }
	h["DuplicateWithIndex"] = func(o tt.Op) tt.Res { return rll(pairs(gogu.DuplicateWithIndex(cp(o.L[0])))) }

	// ------------------------------------------------------------------ C12
	h["Chunk"] = func(o tt.Op) tt.Res { return rll(gogu.Chunk(cp(o.L[0]), xint(o.A[0]))) }
	h["Partition"] = func(o tt.Op) tt.Res {
		p := gogu.Partition(cp(o.L[0]), predInt(o.F))
		return rll([][]int{p[0], p[1]})
	}
	h["Filter"] = func(o tt.Op) tt.Res { return rs(gogu.Filter(cp(o.L[0]), predInt(o.F))) }
	h["Reject"] = func(o tt.Op) tt.Res { return rs(gogu.Reject(cp(o.L[0]), predInt(o.F))) }
	h["DropWhile"] = func(o tt.Op) tt.Res { return rs(gogu.DropWhile(cp(o.L[0]), predInt(o.F))) }
	h["DropRightWhile"] = func(o tt.Op) tt.Res { return rs(gogu.DropRightWhile(cp(o.L[0]), predInt(o.F))) }
	h["GroupBy"] = func(o tt.Op) tt.Res {
		g := gogu.GroupBy(cp(o.L[0]), fnInt(o.F))
		out := [][]int{}
		for k, v := range g {
			out = append(out, append([]int{k}, v...))
		}
		sort.Slice(out, func(i, j int) bool { return out[i][0] < out[j][0] })
		return rll(out)
	}
	h["Zip"] = func(o tt.Op) tt.Res { return rll(gogu.Zip(lists(o)...)) }
	h["Unzip"] = func(o tt.Op) tt.Res { return rll(gogu.Unzip(lists(o)...)) }
	h["Flatten"] = func(o tt.Op) tt.Res {
		r, err := gogu.Flatten[int](nestOf(o.X).build())
		return rerr(r, err)
	}
	h["Merge"] = func(o tt.Op) tt.Res { l := lists(o); return rs(gogu.Merge(l[0], l[1:]...)) }
	h["Drop"] = func(o tt.Op) tt.Res { return rs(gogu.Drop(cp(o.L[0]), xint(o.A[0]))) }
	h["Reverse"] = func(o tt.Op) tt.Res {
		in := cp(o.L[0])
		r := gogu.Reverse(in)
		return tt.Res{Ok: true, S: cp(r), H: hl([][]int{cp(gogu.Reverse(cp(r)))})} // and its own inverse
	}
	h["Shuffle"] = func(o tt.Op) tt.Res { return rs(gogu.Shuffle(cp(o.L[0]))) }
	h["Map"] = func(o tt.Op) tt.Res {
		var log []int
		f := fnInt(o.F)
		r := gogu.Map(cp(o.L[0]), func(x int) int { log = append(log, x); return f(x) })
		return tt.Res{Ok: true, S: r, H: &tt.HRes{Log: log}}
	}
	h["ForEach"] = func(o tt.Op) tt.Res {
		var log []int
		gogu.ForEach(cp(o.L[0]), func(x int) { log = append(log, x) })
		return tt.Res{Ok: true, H: &tt.HRes{Log: log}}
	}
	h["ForEachRight"] = func(o tt.Op) tt.Res {
		var log []int
		gogu.ForEachRight(cp(o.L[0]), func(x int) { log = append(log, x) })
		return tt.Res{Ok: true, H: &tt.HRes{Log: log}}
	}
	h["Reduce"] = func(o tt.Op) tt.Res { // acc*10+v: order sensitive
		var log []int
		r := gogu.Reduce(cp(o.L[0]), func(v, acc int) int { log = append(log, v); return (acc*10 + v) % 100000 }, o.A[0])
		return tt.Res{Ok: true, V: r, H: &tt.HRes{Log: log}}
	}
	h["ReverseStr"] = func(o tt.Op) tt.Res {
		r := gogu.ReverseStr(str(o.L[0]))
		return tt.Res{Ok: true, S: bs(r), H: hl([][]int{bs(gogu.ReverseStr(r))})}
	}
}

// sparsePass repeats a driver's linear recording into <out>.sp.lin.ndjson with most calls left unobserved
// (tt.SparseSeed): stretches of calls without any query in between.
func sparsePass(cfg Config, s *Summary, rec func(file string) (int, error)) error {
	tt.SparseSeed = cfg.Seed*977 + 5
	defer func() { tt.SparseSeed = 0 }()
	f := cfg.Out + ".sp.lin.ndjson"
	n, err := rec(f)
	if err != nil {
		return err
	}
	s.Files = append(s.Files, f)
	s.Nodes += n
	s.Extra["sparse_nodes"] = n
	return nil
}

// xint: the limits of int do not fit the validator's 32-bit integers; +-2000000000 (+-2000000001) stand
// for math.MaxInt / math.MinInt (and the values next to them) in the arguments of the index-taking helpers.
func xint(v int) int {
	switch v {
	case 2000000000:
		return math.MaxInt
	case 2000000001:
		return math.MaxInt - 1
	case -2000000000:
		return math.MinInt
	case -2000000001:
		return math.MinInt + 1
	}
	return v
}

var xints = []int{2000000000, 2000000001, -2000000000, -2000000001}
