//go:build vshim

package main

import (
	"fmt"
	"math"
	"math/rand"
	"reflect"
	"runtime"
	"sort"
	"strconv"
	"time"
	"unsafe"

	"github.com/esimov/gogu/cache"
	"github.com/esimov/gogu/zzshim/vtime"
	"verifharness/tt"
)

// C08: cache.Cache[string,string] on the virtual clock (DESIGN 7/C08).
// Time unit = 1 ms of virtual time; keys 0..NK-1 are "k0".."k<NK-1>"; the value n > 0 is
// strconv.Itoa(n) and n = 0 is the empty string, which the cache rejects.

const ecUnit = time.Millisecond

type ecProj struct {
	Count int   `json:"count"`
	List  []int `json:"list"` // k1,v1,k2,v2,... sorted by key
	Get   []int `json:"get"`  // ok0,v0,ok1,v1,...
	Ex    []int `json:"ex"`   // IsExpired per key
	PP    bool  `json:"pp"`
}

func ecZero(nk int) ecProj {
	return ecProj{List: []int{}, Get: make([]int, 2*nk), Ex: make([]int, nk)}
}

type ecSys struct {
	c  *cache.Cache[string, string]
	nk int
}

func ecKey(k int) string { return "k" + strconv.Itoa(k) }
func ecVal(v int) string {
	if v == 0 {
		return ""
	}
	return strconv.Itoa(v)
}
func ecValInt(s string) int {
	n, err := strconv.Atoi(s)
	if err != nil {
		return -1
	}
	return n
}
func ecDur(d int) time.Duration {
	if d == -1 {
		return cache.NoExpiration
	}
	if d == 2000000000 { // "for ever" spelled as the largest duration: the deadline does not fit an int64
		return time.Duration(math.MaxInt64)
	}
	return time.Duration(d) * ecUnit // other negative durations are negative durations: no expiry either
}

var (
	ecNews int
	ecPrev *cache.Cache[string, string]
)

func ecStopJanitor(c *cache.Cache[string, string]) {
	if c == nil {
		return
	}
	defer func() { recover() }()
	inner := reflect.ValueOf(c).Elem().Field(0)
	if inner.Kind() != reflect.Ptr || inner.IsNil() {
		return
	}
	f := inner.Elem().FieldByName("done")
	if !f.IsValid() || f.Kind() != reflect.Chan {
		return
	}
	ch := reflect.NewAt(f.Type(), unsafe.Pointer(f.UnsafeAddr())).Elem()
	for i := 0; i < 20; i++ {
		if ch.TrySend(reflect.Zero(ch.Type().Elem())) {
			return
		}
		runtime.Gosched()
	}
}

func (s *ecSys) Do(o tt.Op) tt.Res {
	switch o.N {
	case "new":
		vtime.Enable(false)
		def := ecDur(o.A[0])
		// the cleanup goroutine of a cache only stops when the cache is collected - and the code at the pinned
		// commit never lets that happen (the goroutine itself keeps the finalised object reachable): without
		// help thousands of them pile up and every quiescence check has to look at them all.  The cache of
		// the previous scenario is not used any more: tell its goroutine to stop, through the unexported
		// `done` channel if there is one (best effort, by reflection).
		ecStopJanitor(ecPrev)
		if ecNews++; ecNews%256 == 0 {
			runtime.GC()
		}
		s.c = cache.New[string, string](def, time.Duration(o.A[1])*ecUnit)
		ecPrev = s.c
		if o.A[1] > 0 {
			// the cleanup goroutine arms its ticker asynchronously: wait until it has come to rest (every other
			// goroutine blocked), so that the interval is counted from the construction instant - or, for an
			// implementation that starts its cleanup later, from whenever it chooses to
			vtime.Quiesce(500 * time.Millisecond)
		}
		return tt.Res{Ok: s.c != nil}
	case "set":
		return tt.Res{Ok: s.c.Set(ecKey(o.A[0]), ecVal(o.A[1]), ecDur(o.A[2])) == nil}
	case "update":
		return tt.Res{Ok: s.c.Update(ecKey(o.A[0]), ecVal(o.A[1]), ecDur(o.A[2])) == nil}
	case "delete":
		return tt.Res{Ok: s.c.Delete(ecKey(o.A[0])) == nil}
	case "flush":
		s.c.Flush()
		return tt.Res{Ok: true}
	case "delexp":
		return tt.Res{Ok: s.c.DeleteExpired() == nil}
	case "m2c":
		m := map[string]string{}
		for i := 1; i+1 < len(o.A); i += 2 {
			m[ecKey(o.A[i])] = ecVal(o.A[i+1])
		}
		return tt.Res{Ok: s.c.MapToCache(m, ecDur(o.A[0])) == nil}
	case "tick":
		vtime.Advance(time.Duration(o.A[0]) * ecUnit)
		return tt.Res{Ok: true}
	}
	panic("expcache driver: unknown op " + o.N)
}

func (s *ecSys) Proj() any {
	p := ecZero(s.nk)
	if s.c == nil {
		return p
	}
	p.PP = tt.Safe(func() {
		p.Count = s.c.Count()
		type kv struct{ k, v int }
		var l []kv
		for k, it := range s.c.List() {
			var ki int
			if _, err := fmt.Sscanf(k, "k%d", &ki); err != nil {
				ki = -1
			}
			l = append(l, kv{ki, ecValInt(it.Val())})
		}
		sort.Slice(l, func(i, j int) bool { return l[i].k < l[j].k })
		for _, e := range l {
			p.List = append(p.List, e.k, e.v)
		}
		for k := 0; k < s.nk; k++ {
			it, err := s.c.Get(ecKey(k))
			if err == nil && it != nil {
				p.Get[2*k], p.Get[2*k+1] = 1, ecValInt(it.Val())
			}
			p.Ex[k] = b2i(s.c.IsExpired(ecKey(k)))
		}
	})
	return p
}

var ecConfigs = [][2]int{{-1, 0}, {0, 0}, {4, 0}, {-1, 6}, {0, 6}, {4, 6}}

// configurations used by the seeded runs only: a negative default other than NoExpiration
var ecLinConfigs = [][2]int{{-1, 0}, {0, 0}, {4, 0}, {-1, 6}, {0, 6}, {4, 6}, {-5, 6}, {-5, 0}, {25, 6}, {25, 3}}

func ecOps(step int, full bool) []tt.Op {
	v := step
	var r []tt.Op
	durs := []int{0, -1, 2, 10}
	for k := 0; k < 3; k++ {
		for _, d := range durs {
			if !full && k == 2 && (d == -1 || d == 10) {
				continue
			}
			r = append(r, op("set", k, v, d))
		}
		r = append(r, op("update", k, v, 0), op("update", k, v, 2), op("delete", k))
		if k < 1 && full { // the SAME value again with another lifetime: the new lifetime counts
			r = append(r, op("update", k, 7, 10), op("update", k, 7, 2))
		}
	}
	r = append(r, op("set", 0, 0, 0), op("set", 1, 0, 2), op("update", 0, 0, 0),
		op("flush"), op("delexp"),
		op("m2c", 2, 0, v, 1, v+100), op("m2c", 0, 2, v), op("m2c", 2, 1, 0, 2, v),
		op("tick", 1), op("tick", 2), op("tick", 5))
	return r
}

func ecExplorer(depth int) *tt.Explorer {
	return &tt.Explorer{
		New:      func() tt.Sys { return &ecSys{nk: 3} },
		ZeroProj: ecZero(3),
		Ops: func(path []tt.Op) []tt.Op {
			if len(path) == 0 {
				var r []tt.Op
				for _, c := range ecConfigs {
					r = append(r, op("new", c[0], c[1]))
				}
				return r
			}
			if len(path) > depth {
				return nil
			}
			return ecOps(len(path), len(path) < depth || depth <= 2)
		},
		SplitDepth: 2,
	}
}

// long seeded runs: more keys, random durations, ticks that cross many deadlines and intervals
func ecLinear(cfg Config, file string, runs, steps int) (int, error) {
	nk := 8
	ls, err := tt.NewLinearSet(file, ecZero(nk))
	if err != nil {
		return 0, err
	}
	rng := rand.New(rand.NewSource(cfg.Seed*7919 + int64(cfg.Shard+1)))
	for r := 0; r < runs; r++ {
		c := ecLinConfigs[(r*3+int(cfg.Seed)+cfg.Shard)%len(ecLinConfigs)]
		s := &ecSys{nk: nk}
		ls.Run(s, func(st int) (tt.Op, bool) {
			if st == 0 {
				return op("new", c[0], c[1]), true
			}
			if st > steps {
				return tt.Op{}, false
			}
			k := rng.Intn(nk)
			d := []int{0, 0, -1, 1, 2, 3, 7, 12, 20, -3}[rng.Intn(10)]
			switch x := rng.Intn(100); {
			case x < 30:
				return op("set", k, st, d), true
			case x < 42:
				return op("update", k, st, d), true
			case x < 46:
				return op("set", k, 0, d), true
			case x < 54:
				return op("delete", k), true
			case x < 56:
				return op("flush"), true
			case x < 64:
				return op("delexp"), true
			case x < 70:
				return op("m2c", d, k, st, (k+1)%nk, st+1000, (k+3)%nk, st+2000), true
			default:
				return op("tick", 1+rng.Intn(9)), true
			}
		})
	}
	// bulk: many entries expiring at the same moment, purged by one DeleteExpired / one cleanup pass
	if cfg.Shard < 2 {
		nb := 140 // well past the batch sizes (32, 64, 100) a purge may special-case
		s := &ecSys{nk: nb}
		intv := []int{0, 6}[cfg.Shard]
		ls.Run(s, func(st int) (tt.Op, bool) {
			switch {
			case st == 0:
				return op("new", 4, intv), true
			case st <= nb:
				d := 2
				if st%8 == 0 {
					d = -1
				} else if st%8 == 1 {
					d = 30
				}
				return op("set", st-1, st, d), true
			case st == nb+1:
				// with background cleanup the jump goes past deadline + interval at once: in between, every
				// expired entry may or may not have been purged yet (2^32 possibilities for the validator)
				if intv > 0 {
					return op("tick", 9), true
				}
				return op("tick", 3), true
			case st == nb+2:
				return op("delexp"), true
			case st == nb+3:
				return op("tick", 9), true
			case st == nb+4:
				return op("m2c", 2, 0, 1, 2, 1, 3, 1, 4, 1, 5, 1, 6, 1, 8, 1), true
			case st == nb+5:
				return op("tick", 20), true
			}
			return tt.Op{}, false
		})
	}
	return ls.Close()
}

func init() {
	drivers["expcache"] = driver{
		run: func(cfg Config) (*Summary, error) {
			s := &Summary{Extra: map[string]any{}}
			if cfg.Shard < 0 {
				return nil, fmt.Errorf("expcache owns the process-global virtual clock: run one process per shard (-shard i)")
			}
			st, err := ecExplorer(cfg.Depth).ExploreShard(cfg.Out+".tree", cfg.Shard, cfg.Shards)
			if err != nil {
				return nil, err
			}
			s.add(st)
			runs, steps := 2, 400
			if cfg.Tier == "thorough" {
				runs, steps = 6, 1500
			}
			f := fmt.Sprintf("%s.%d.lin.ndjson", cfg.Out, cfg.Shard)
			n, err := ecLinear(cfg, f, runs, steps)
			if err != nil {
				return nil, err
			}
			s.Files = append(s.Files, f)
			s.Nodes += n
			s.Leaves += runs
			s.Extra["linear_nodes"] = n
			s.Extra["tick_misses"] = vtime.TickMisses()
			s.Extra["quiesce_misses"] = vtime.QuiesceMisses()
			return s, nil
		},
		newSys: func(variant string) (func() tt.Sys, any) {
			nk := 3
			if variant == "lin" {
				nk = 8
			}
			if variant == "bulk" {
				nk = 140
			}
			return func() tt.Sys { return &ecSys{nk: nk} }, ecZero(nk)
		},
	}
}
