package main

import (
	"github.com/esimov/gogu/btree"
	"verifharness/tt"
)

// C10: BTree[int,int]; the value put is the step number.

type btSys struct {
	t     *btree.BTree[int, int]
	probe func() []int
	full  func() bool
}

func (s *btSys) Do(o tt.Op) tt.Res {
	switch o.N {
	case "new":
		s.t = btree.New[int, int]()
		return tt.Res{Ok: true}
	case "put":
		s.t.Put(o.A[0], o.A[1])
		return tt.Res{Ok: true}
	case "remove":
		s.t.Remove(o.A[0])
		return tt.Res{Ok: true}
	case "get": // an observer as a call of its own, between the edits
		v, ok := s.t.Get(o.A[0])
		return tt.Res{Ok: ok, V: v}
	}
	panic("btree driver: unknown op " + o.N)
}

func (s *btSys) Proj() any {
	p := zeroMapProj()
	p.PP = tt.Safe(func() {
		p.Size = s.t.Size()
		p.Emp = s.t.IsEmpty()
		p.H = s.t.Height()
		if s.full() {
			p.Full = true
			s.t.Traverse(func(k, v int) { p.Trav = append(p.Trav, k, v) })
		}
		for _, k := range s.probe() {
			v, ok := s.t.Get(k)
			p.GK = append(p.GK, k)
			if !ok {
				p.GV = append(p.GV, -1)
			} else {
				p.GV = append(p.GV, v)
			}
		}
	})
	return p
}

func btExplorer(depth int) *tt.Explorer {
	keys := []int{0, 1, 2, 3, 4, 5}
	return &tt.Explorer{
		New: func() tt.Sys {
			return &btSys{probe: func() []int { return keys }, full: func() bool { return true }}
		},
		ZeroProj: func() mapProj { z := zeroMapProj(); z.Emp = true; return z }(),
		Ops: func(path []tt.Op) []tt.Op {
			if len(path) == 0 {
				return []tt.Op{op("new")}
			}
			if len(path) > depth {
				return nil
			}
			var r []tt.Op
			for _, k := range keys {
				r = append(r, op("put", k, len(path)), op("remove", k))
			}
			if path[len(path)-1].N != "get" { // never two in a row
				r = append(r, op("get", 1), op("get", 4))
			}
			return r
		},
		SplitDepth: 3,
	}
}

func init() {
	drivers["btree"] = driver{
		run: func(cfg Config) (*Summary, error) {
			s := &Summary{Extra: map[string]any{}}
			st, err := btExplorer(cfg.Depth).Explore(cfg.Out+".tree", cfg.Shards)
			if err != nil {
				return nil, err
			}
			s.add(st)
			{ // random walks over the same small alphabet, far deeper than the exhaustive tree
				nch, ln := 500, 16
				if cfg.Tier == "thorough" {
					nch *= 6
				}
				rf := cfg.Out + ".rnd.lin.ndjson"
				rn, err := tt.RandomChains(btExplorer(ln), rf, nch, ln, cfg.Seed*31+7)
				if err != nil {
					return nil, err
				}
				s.Files = append(s.Files, rf)
				s.Nodes += rn
				s.Leaves += nch
				s.Extra["random_walks"] = nch
			}
			runs, steps := 6, 1000
			if cfg.Tier == "thorough" {
				runs, steps = 24, 5000
			}
			f := cfg.Out + ".lin.ndjson"
			n, err := mapLinear(cfg, f, runs, steps, 400, func(probe func() []int, full func() bool) tt.Sys {
				return &btSys{probe: probe, full: full}
			}, "put", "remove", false)
			if err != nil {
				return nil, err
			}
			s.Files = append(s.Files, f)
			s.Nodes += n
			s.Leaves += runs
			s.Extra["linear_runs"] = runs
			s.Extra["linear_nodes"] = n
			if err := sparsePass(cfg, s, func(f string) (int, error) {
				return mapLinear(cfg, f, runs, steps, 400, func(probe func() []int, full func() bool) tt.Sys {
					return &btSys{probe: probe, full: full}
				}, "put", "remove", false)
			}); err != nil {
				return nil, err
			}
			return s, nil
		},
		newSys: func(variant string) (func() tt.Sys, any) {
			keys := []int{0, 1, 2, 3, 4, 5}
			z := zeroMapProj()
			z.Emp = true
			return func() tt.Sys {
				return &btSys{probe: func() []int { return keys }, full: func() bool { return true }}
			}, z
		},
	}
}
