//go:build vshim

package main

import (
	"encoding/json"
	"fmt"
	"reflect"
	"unsafe"

	"github.com/esimov/gogu/zzshim/vsync"
	"verifharness/tt"
)

// C01: every pair of public methods of the eight lock-guarded containers on one shared
// instance (DESIGN 7/C01), on the scratch copy with access probes.
//   "disc": the lock and access events of the schedules with at most 1 (thorough: 2) preemptions per pair -> HappensBefore.tla
//   "safe": every interleaving of every pair -> no panic, no deadlock, usable afterwards
//   "hand": memory handed back to the caller is not written by later calls

func raceAlphabet(name string) (f string, inits [][]tt.Op, ops []tt.Op, post []tt.Op) {
	tk := func(v int, s string) []int { return append([]int{v}, bytesOf(s)...) }
	switch name {
	case "stack":
		return "stack", [][]tt.Op{{fop("stack", "news")}, {fop("stack", "news"), fop("stack", "push", 1)}, {fop("stack", "news"), fop("stack", "push", 1), fop("stack", "push", 2)}},
			[]tt.Op{fop("stack", "push", 3), fop("stack", "pop"), fop("stack", "peek"), fop("stack", "search", 1), fop("stack", "size")},
			[]tt.Op{fop("stack", "push", 5), fop("stack", "size"), fop("stack", "pop")}
	case "lstack":
		return "stack", [][]tt.Op{{fop("stack", "newl", 1)}, {fop("stack", "newl", 1), fop("stack", "push", 2)}, {fop("stack", "newl", 1), fop("stack", "push", 2), fop("stack", "push", 3)}},
			[]tt.Op{fop("stack", "push", 4), fop("stack", "pop"), fop("stack", "peek"), fop("stack", "search", 1), fop("stack", "size")},
			[]tt.Op{fop("stack", "push", 5), fop("stack", "size"), fop("stack", "pop")}
	case "queue":
		return "queue", [][]tt.Op{{fop("queue", "newq")}, {fop("queue", "newq"), fop("queue", "enq", 1)}, {fop("queue", "newq"), fop("queue", "enq", 1), fop("queue", "enq", 2)}},
			[]tt.Op{fop("queue", "enq", 3), fop("queue", "deq"), fop("queue", "peek"), fop("queue", "search", 1), fop("queue", "size"), fop("queue", "clear")},
			[]tt.Op{fop("queue", "enq", 5), fop("queue", "size"), fop("queue", "deq")}
	case "lqueue":
		return "queue", [][]tt.Op{{fop("queue", "newl", 1)}, {fop("queue", "newl", 1), fop("queue", "enq", 2)}, {fop("queue", "newl", 1), fop("queue", "deq")}},
			[]tt.Op{fop("queue", "enq", 3), fop("queue", "deq"), fop("queue", "peek"), fop("queue", "search", 1), fop("queue", "size"), fop("queue", "clear")},
			[]tt.Op{fop("queue", "enq", 5), fop("queue", "size"), fop("queue", "deq")}
	case "heap":
		return "heap", [][]tt.Op{{fop("heap", "new", 0)}, {fop("heap", "new", 0), fop("heap", "push", 2)}, {fop("heap", "new", 0), fop("heap", "push", 2), fop("heap", "push", 4), fop("heap", "push", 3)}},
			[]tt.Op{fop("heap", "push", 1), fop("heap", "pop"), fop("heap", "peek"), fop("heap", "size"), fop("heap", "isempty"), fop("heap", "clear"),
				fop("heap", "getvalues"), fop("heap", "delete", 2), fop("heap", "convert", 1), fop("heap", "merge"), fop("heap", "meld"),
				fop("heap", "pushn", 7, 1, 6)},
			[]tt.Op{fop("heap", "push", 5), fop("heap", "size"), fop("heap", "pop")}
	case "bstree":
		return "bstree", [][]tt.Op{{fop("bstree", "new", 0)}, {fop("bstree", "new", 0), fop("bstree", "upsert", 2, 1)}, {fop("bstree", "new", 0), fop("bstree", "upsert", 2, 1), fop("bstree", "upsert", 1, 2), fop("bstree", "upsert", 3, 3)}},
			[]tt.Op{fop("bstree", "upsert", 2, 9), fop("bstree", "upsert", 4, 9), fop("bstree", "get", 2), fop("bstree", "delete", 2), fop("bstree", "size"), fop("bstree", "trav")},
			[]tt.Op{fop("bstree", "upsert", 7, 7), fop("bstree", "size"), fop("bstree", "get", 7)}
	case "trie":
		return "trie", [][]tt.Op{{fop("trie", "new")}, {fop("trie", "new"), fop("trie", "put", tk(1, "ab")...), fop("trie", "put", tk(2, "b")...)}},
			[]tt.Op{fop("trie", "put", tk(9, "a")...), fop("trie", "get", bytesOf("a")...), fop("trie", "contains", bytesOf("ab")...), fop("trie", "size"),
				fop("trie", "keys"), fop("trie", "startswith", bytesOf("a")...), fop("trie", "longestprefix", bytesOf("abc")...)},
			[]tt.Op{fop("trie", "put", tk(7, "c")...), fop("trie", "size"), fop("trie", "get", bytesOf("c")...)}
	case "cache":
		return "cache", [][]tt.Op{{fop("cache", "new", -1, 0)}, {fop("cache", "new", 4, 0), fop("cache", "set", 0, 1, 0), fop("cache", "set", 1, 2, -1)}},
			[]tt.Op{fop("cache", "set", 0, 9, 0), fop("cache", "setdefault", 2, 9), fop("cache", "get", 0), fop("cache", "update", 0, 8, 0), fop("cache", "delete", 0),
				fop("cache", "delexp"), fop("cache", "flush"), fop("cache", "list"), fop("cache", "count"), fop("cache", "m2c", 0, 0, 7, 3, 7), fop("cache", "isexpired", 0)},
			[]tt.Op{fop("cache", "update", 5, 5, 0), fop("cache", "count"), fop("cache", "get", 5)}
	}
	panic("race driver: unknown type " + name)
}

var raceTypes = []string{"stack", "lstack", "queue", "lqueue", "heap", "bstree", "trie", "cache"}

// raceSeqs: two-call sequences for the second thread - free a slot, then reuse it (and the reverse):
// what a reader still holding an old view of the storage would collide with
func raceSeqs(name string) [][]tt.Op {
	tk := func(v int, s string) []int { return append([]int{v}, bytesOf(s)...) }
	switch name {
	case "stack", "lstack":
		return [][]tt.Op{{fop("stack", "pop"), fop("stack", "push", 6)}, {fop("stack", "push", 6), fop("stack", "pop")}}
	case "queue", "lqueue":
		return [][]tt.Op{{fop("queue", "deq"), fop("queue", "enq", 6)}, {fop("queue", "enq", 6), fop("queue", "deq")}, {fop("queue", "clear"), fop("queue", "enq", 6)}}
	case "heap":
		return [][]tt.Op{{fop("heap", "pop"), fop("heap", "push", 6)}, {fop("heap", "push", 1), fop("heap", "pop")}, {fop("heap", "clear"), fop("heap", "push", 6)}, {fop("heap", "delete", 2), fop("heap", "push", 6)}}
	case "bstree":
		return [][]tt.Op{{fop("bstree", "delete", 2), fop("bstree", "upsert", 2, 8)}, {fop("bstree", "upsert", 4, 8), fop("bstree", "delete", 4)}}
	case "trie":
		return [][]tt.Op{{fop("trie", "put", tk(8, "a")...), fop("trie", "put", tk(9, "abc")...)}}
	case "cache":
		return [][]tt.Op{{fop("cache", "delete", 0), fop("cache", "set", 0, 7, 0)}, {fop("cache", "flush"), fop("cache", "set", 0, 7, 0)}, {fop("cache", "update", 0, 7, 0), fop("cache", "delete", 0)}}
	}
	return nil
}

func racePrograms(name string, triples bool) []concProg {
	_, inits, ops, post := raceAlphabet(name)
	var out []concProg
	if name == "heap" {
		// two shared heaps merged / melded into each other in both directions while each is being written:
		// nested locking in opposite orders only deadlocks with a writer waiting on either side
		i2 := []tt.Op{fop("heap", "new", 0), fop("heap", "push", 2), fop("heap", "push", 4), fop("heap", "pushB", 3), fop("heap", "pushB", 5)}
		p2 := []tt.Op{fop("heap", "push", 9), fop("heap", "size"), fop("heap", "pushB", 9), fop("heap", "sizeB")}
		for _, mm := range [][2]string{{"mergeAB", "mergeBA"}, {"meldAB", "meldBA"}, {"mergeAB", "meldBA"}} {
			out = append(out, concProg{Ty: name, Init: i2, Post: p2, Threads: [][]tt.Op{
				{fop("heap", mm[0])}, {fop("heap", mm[1])}, {fop("heap", "push", 1)}, {fop("heap", "pushB", 1)}}})
			out = append(out, concProg{Ty: name, Init: i2, Post: p2, Threads: [][]tt.Op{{fop("heap", mm[0])}, {fop("heap", mm[1])}}})
			out = append(out, concProg{Ty: name, Init: i2, Post: p2, Threads: [][]tt.Op{{fop("heap", mm[0])}, {fop("heap", "pushB", 1)}, {fop("heap", "pop")}}})
		}
	}
	for _, init := range inits {
		for _, a := range ops {
			for _, sq := range raceSeqs(name) {
				out = append(out, concProg{Ty: name, Init: init, Threads: [][]tt.Op{{a}, sq}, Post: post})
			}
		}
	}
	for _, init := range inits {
		for i, a := range ops {
			for j := i; j < len(ops); j++ {
				b := ops[j]
				out = append(out, concProg{Ty: name, Init: init, Threads: [][]tt.Op{{a}, {b}}, Post: post})
				if triples {
					for k := j; k < len(ops); k += 2 {
						out = append(out, concProg{Ty: name, Init: init, Threads: [][]tt.Op{{a}, {b}, {ops[k]}}, Post: post})
					}
				}
			}
		}
	}
	return out
}

// raceLog turns the scheduler's log of one execution into trace events, dropping repetitions of an
// access by the same thread to the same cell in the same mode between two of its lock operations
// (the thread's clock only moves when it acquires or releases a lock).
func raceLog(log []vsync.Event) []tt.Op {
	var ev []tt.Op
	held := map[int]map[int64]int{}
	seen := map[string]bool{}
	locks := map[int64]int{}
	epoch := map[int]int{}
	lid := func(m int64) int {
		if v, ok := locks[m]; ok {
			return v
		}
		locks[m] = len(locks) + 1
		return locks[m]
	}
	for _, e := range log {
		switch e.K {
		case "acq", "rel":
			if held[e.T] == nil {
				held[e.T] = map[int64]int{}
			}
			if e.K == "acq" {
				held[e.T][e.M]++
			} else {
				held[e.T][e.M]--
			}
			epoch[e.T]++
			ev = append(ev, op(e.K, e.T, lid(e.M), b2i(e.W)))
		case "acc":
			k := fmt.Sprint(e.T, e.Cell, e.W, epoch[e.T])
			if seen[k] {
				continue
			}
			seen[k] = true
			ev = append(ev, op("acc", e.T, int(e.Cell), b2i(e.W), e.Site))
		case "hand":
			ev = append(ev, op("hand", e.T, int(e.Cell)))
		}
	}
	return ev
}

func raceRun(p concProg, logOn bool, run func(bodies []func()) *vsync.Result) ([]tt.Op, []tt.Res, *vsync.Result, error) {
	vsync.Probes = true
	defer func() { vsync.Probes = false }()
	var ev []tt.Op
	var rs []tt.Res
	zero := tt.Res{S: []int{}}
	obj := &concObj{ty: p.Ty}
	add := func(e tt.Op, r tt.Res) {
		r.V, r.S, r.Ok = 0, []int{}, !r.P // results are not judged here, only "it did not panic"
		evMu.Lock()
		ev = append(ev, e)
		rs = append(rs, r)
		evMu.Unlock()
	}
	for _, o := range p.Init {
		tt.Exec(obj, o)
	}
	var bodies []func()
	for ti, ops := range p.Threads {
		id, ops := ti+1, ops
		bodies = append(bodies, func() {
			for _, o := range ops {
				o := o
				vsync.Point()
				add(tt.Op{N: "inv", A: []int{id}, X: o}, zero)
				r := tt.Exec(obj, o)
				add(tt.Op{N: "ret", A: []int{id}}, r)
			}
		})
	}
	res := run(bodies)
	if res.Stuck {
		return nil, nil, nil, fmt.Errorf("a thread blocked outside the scheduler's control")
	}
	end := tt.Op{N: "end", A: []int{}}
	for _, b := range res.Blocked {
		end.A = append(end.A, b)
	}
	if res.Deadlock {
		end.N = "deadlock"
	}
	if !res.Deadlock && len(res.Blocked) == 0 {
		vsync.Probes = false
		for _, o := range p.Post { // usable afterwards
			o := o
			add(tt.Op{N: "obs", A: []int{}, X: o}, tt.Exec(obj, o))
		}
	}
	end.X = concSched{Kind: "sched", Prog: p, Choices: append([]int{}, res.Choices...)}
	add(end, zero)
	return ev, rs, res, nil
}

// ---- hand-back scenarios: one thread, logged

type handProg struct {
	Ty   string  `json:"ty"`
	Init []tt.Op `json:"init"`
	Hand string  `json:"hand"`
	Then []tt.Op `json:"then"`
}

func handRun(p handProg) []tt.Op {
	vsync.Probes = true
	defer func() { vsync.Probes = false }()
	obj := &concObj{ty: p.Ty}
	for _, o := range p.Init {
		tt.Exec(obj, o)
	}
	res := vsync.Run([]func(){func() {
		switch p.Hand {
		case "heap.getvalues":
			v := obj.h.GetValues()
			if len(v) > 0 {
				offs := make([]uintptr, len(v))
				for i := range v {
					offs[i] = uintptr(i) * unsafe.Sizeof(v[0])
				}
				vsync.NoteHand(unsafe.Pointer(&v[0]), offs)
			}
		case "cache.list":
			m := obj.c.List()
			vsync.NoteHand(reflect.ValueOf(m).UnsafePointer(), []uintptr{0})
		case "cache.get":
			it, _ := obj.c.Get(ecKey(0))
			if it != nil {
				t := reflect.TypeOf(it).Elem()
				var offs []uintptr
				for i := 0; i < t.NumField(); i++ {
					offs = append(offs, t.Field(i).Offset)
				}
				vsync.NoteHand(unsafe.Pointer(it), offs)
			}
		}
		for _, o := range p.Then {
			tt.Exec(obj, o)
		}
	}}, func(int, []int, int) int { return 0 }, true)
	ev := raceLog(res.Log)
	end := tt.Op{N: "end", A: []int{}, X: map[string]any{"kind": "hand", "prog": p}}
	return append(ev, end)
}

func handPrograms() []handProg {
	var out []handProg
	_, hi, hops, _ := raceAlphabet("heap")
	for _, o := range hops {
		out = append(out, handProg{Ty: "heap", Init: hi[len(hi)-1], Hand: "heap.getvalues", Then: []tt.Op{o}})
		out = append(out, handProg{Ty: "heap", Init: hi[len(hi)-1], Hand: "heap.getvalues", Then: []tt.Op{o, fop("heap", "push", 0), fop("heap", "pop")}})
	}
	// the listing of a heap whose backing array is exactly full (1, 2, 4, 8 values pushed one by one)
	for _, n := range []int{1, 2, 4, 8} {
		init := []tt.Op{fop("heap", "new", 0)}
		for i := 0; i < n; i++ {
			init = append(init, fop("heap", "push", 2+i))
		}
		for _, o := range hops {
			out = append(out, handProg{Ty: "heap", Init: init, Hand: "heap.getvalues", Then: []tt.Op{o, fop("heap", "pop"), fop("heap", "push", 0)}})
		}
	}
	_, ci, cops, _ := raceAlphabet("cache")
	for _, o := range cops {
		for _, h := range []string{"cache.list", "cache.get"} {
			out = append(out, handProg{Ty: "cache", Init: ci[1], Hand: h, Then: []tt.Op{o}})
			out = append(out, handProg{Ty: "cache", Init: ci[1], Hand: h, Then: []tt.Op{o, fop("cache", "update", 0, 6, 0), fop("cache", "set", 4, 4, 0)}})
		}
	}
	// the listing / the item is still being read while entries expire and are purged
	for _, h := range []string{"cache.list", "cache.get"} {
		for _, then := range [][]tt.Op{
			{fop("cache", "tick", 5), fop("cache", "delexp")},
			{fop("cache", "tick", 5), fop("cache", "delexp"), fop("cache", "set", 0, 7, 0)},
			{fop("cache", "tick", 5), fop("cache", "set", 0, 7, 0), fop("cache", "delexp")},
			{fop("cache", "tick", 5), fop("cache", "get", 0), fop("cache", "isexpired", 0), fop("cache", "count")},
		} {
			out = append(out, handProg{Ty: "cache", Init: ci[1], Hand: h, Then: then})
		}
	}
	return out
}

func init() {
	drivers["race"] = driver{
		run: func(cfg Config) (*Summary, error) {
			if cfg.Shard < 0 {
				return nil, fmt.Errorf("race owns the process-global scheduler: run one process per shard")
			}
			// logged executions (happens-before needs the schedule in which a pair is NOT ordered: both orders of
			// the calls and a switch at every unprotected access - preemption bound 1, thorough 2)
			pb, pblog, nlog := 2, 1, 64
			thorough := cfg.Tier == "thorough"
			if thorough {
				pb, pblog, nlog = 3, 2, 600
			}
			disc, safe := tt.NewTrie(), tt.NewResTrie()
			seen := map[string]bool{}
			execs, progs, exhausted, logged, pi := 0, 0, 0, 0, 0
			for _, name := range raceTypes {
				for _, p := range racePrograms(name, thorough) {
					pi++
					if (pi-1)%cfg.Shards != cfg.Shard {
						continue
					}
					progs++
					var ferr error
					// the schedules with the lock/access log
					vsync.ExploreWithLog(pblog, nlog, func(run func([]func()) *vsync.Result) bool {
						ev, _, res, err := raceRun(p, true, run)
						if err != nil {
							ferr = err
							return false
						}
						chain := append(raceLog(res.Log), ev[len(ev)-1])
						b, _ := json.Marshal(chain[:len(chain)-1])
						if k := "d" + string(b); !seen[k] {
							seen[k] = true
							disc.Insert(chain)
							logged++
						}
						return true
					})
					if ferr != nil {
						return nil, ferr
					}
					// every interleaving: panics, deadlocks, usable afterwards
					n, done := vsync.ExploreWith(pb, 20000, func(run func([]func()) *vsync.Result) bool {
						ev, rs, _, err := raceRun(p, false, run)
						if err != nil {
							ferr = err
							return false
						}
						b, _ := json.Marshal([]any{ev[:len(ev)-1], rs, ev[len(ev)-1].N, ev[len(ev)-1].A})
						if k := "s" + string(b); !seen[k] {
							seen[k] = true
							safe.InsertR(ev, rs)
						}
						return true
					})
					if ferr != nil {
						return nil, ferr
					}
					execs += n
					if done {
						exhausted++
					}
				}
			}
			hand := 0
			if cfg.Shard == 0 {
				for _, hp := range handPrograms() {
					disc.Insert(handRun(hp))
					hand++
				}
			}
			fd := fmt.Sprintf("%s.disc.%d.ndjson", cfg.Out, cfg.Shard)
			fs := fmt.Sprintf("%s.safe.%d.ndjson", cfg.Out, cfg.Shard)
			if err := disc.Write(fd); err != nil {
				return nil, err
			}
			if err := safe.Write(fs); err != nil {
				return nil, err
			}
			return &Summary{Files: []string{fd, fs}, Nodes: disc.Nodes() + safe.Nodes(), Leaves: disc.Seqs() + safe.Seqs(), Extra: map[string]any{
				"programs": progs, "programs_exhausted": exhausted, "schedules_executed": execs, "logged_executions": logged,
				"handback_scenarios": hand, "distinct_safety_histories": safe.Seqs()}}, nil
		},
		replayRaw: func(raw []byte, out string) (any, error) {
			var probe struct {
				Kind string `json:"kind"`
			}
			json.Unmarshal(raw, &probe)
			if probe.Kind == "hand" {
				var hp struct {
					Prog handProg `json:"prog"`
				}
				if err := json.Unmarshal(raw, &hp); err != nil {
					return nil, err
				}
				ev := handRun(hp.Prog)
				if out != "" {
					t := tt.NewTrie()
					t.Insert(ev)
					if err := t.Write(out); err != nil {
						return nil, err
					}
				}
				return map[string]any{"events": ev}, nil
			}
			var sc concSched
			if err := json.Unmarshal(raw, &sc); err != nil {
				return nil, err
			}
			i := 0
			var lg *vsync.Result
			ev, rs, _, err := raceRun(sc.Prog, true, func(bodies []func()) *vsync.Result {
				lg = vsync.Run(bodies, func(step int, en []int, cur int) int {
					k := 0
					if i < len(sc.Choices) {
						k = sc.Choices[i]
					}
					i++
					return k
				}, true)
				return lg
			})
			if err != nil {
				return nil, err
			}
			if out != "" {
				// both views of the same execution: the validator of whichever module is asked reads its own
				t := tt.NewResTrie()
				if cfgReplayDisc {
					t.Insert(append(raceLog(lg.Log), ev[len(ev)-1]))
				} else {
					t.InsertR(ev, rs)
				}
				if err := t.Write(out); err != nil {
					return nil, err
				}
			}
			return map[string]any{"events": ev, "results": rs, "log_events": len(lg.Log)}, nil
		},
	}
}

// cfgReplayDisc: -var disc asks the replay to emit the lock/access view
var cfgReplayDisc = false

func init() { setReplayVariant = func(v string) { cfgReplayDisc = v == "disc" } }
