package main

import (
	"math/rand"

	"github.com/esimov/gogu/queue"
	"github.com/esimov/gogu/trie"
	"verifharness/tt"
)

// C09: Trie[string,int] with a slice queue as result queue (the linked queue does not
// implement trie.Queuer: its Dequeue has a different signature).

type trieProj struct {
	Size int       `json:"size"`
	Full bool      `json:"full"`
	Keys [][]int   `json:"keys"`
	GQ   [][]int   `json:"gq"`
	GF   []bool    `json:"gf"`
	GV   []int     `json:"gv"`
	CF   []bool    `json:"cf"`
	SQ   [][]int   `json:"sq"`
	SR   [][][]int `json:"sr"`
	SE   []bool    `json:"se"`
	LQ   [][]int   `json:"lq"`
	LR   [][]int   `json:"lr"`
	LE   []bool    `json:"le"`
	PP   bool      `json:"pp"`
}

func zeroTrieProj() trieProj {
	return trieProj{Keys: [][]int{}, GQ: [][]int{}, GF: []bool{}, GV: []int{}, CF: []bool{}, SQ: [][]int{},
		SR: [][][]int{}, SE: []bool{}, LQ: [][]int{}, LR: [][]int{}, LE: []bool{}}
}

func bytesOf(s string) []int {
	o := make([]int, len(s))
	for i := 0; i < len(s); i++ {
		o[i] = int(s[i])
	}
	return o
}

func strOf(b []int) string {
	o := make([]byte, len(b))
	for i, v := range b {
		o[i] = byte(v)
	}
	return string(o)
}

type trieSys struct {
	t      *trie.Trie[string, int]
	probes func() (get, sw, lp []string, full bool)
	put    []string // history of keys put (the seeded runs derive their probes from it)
}

// linProbes: deterministic in the put history, so that a replay observes the same things.
func (s *trieSys) linProbes() ([]string, []string, []string, bool) {
	if len(s.put) == 0 {
		return []string{"", "a"}, []string{"a", ""}, []string{"a", ""}, true
	}
	last := s.put[len(s.put)-1]
	prev := s.put[(len(s.put)*7)%len(s.put)]
	if len(s.put) > 1 {
		prev = s.put[(len(s.put)*7+3)%(len(s.put)-1)]
	}
	get := []string{last, last + "a", prev + "\x80", ""}
	if len(last) > 1 {
		get = append(get, last[:len(last)-1])
	}
	sw := []string{last[:1], prev}
	lp := []string{last + "\xffzz", prev + "\x00"}
	return get, sw, lp, len(s.put)%100 == 0
}

func (s *trieSys) Do(o tt.Op) tt.Res {
	switch o.N {
	case "new":
		s.t = trie.New[string, int](queue.New[string]())
		return tt.Res{Ok: true}
	case "put":
		s.t.Put(strOf(o.A[1:]), o.A[0])
		s.put = append(s.put, strOf(o.A[1:]))
		return tt.Res{Ok: true}
	// the observers as calls of their own, between the puts: a query must not change what later calls see
	case "sw":
		q, err := s.t.StartsWith(strOf(o.A))
		if err != nil {
			return tt.Res{Ok: false, S: []int{}}
		}
		ks := drainQ(q)
		return tt.Res{Ok: true, V: len(ks), S: flatKeys(ks)}
	case "keys":
		q, err := s.t.Keys()
		if err != nil {
			return tt.Res{Ok: false, S: []int{}}
		}
		ks := drainQ(q)
		return tt.Res{Ok: true, V: len(ks), S: flatKeys(ks)}
	case "get":
		v, ok := s.t.Get(strOf(o.A))
		return tt.Res{Ok: ok, V: v, S: []int{b2i(s.t.Contains(strOf(o.A)))}}
	case "lp":
		r, err := s.t.LongestPrefix(strOf(o.A))
		return tt.Res{Ok: err == nil, S: bytesOf(r)}
	}
	panic("trie driver: unknown op " + o.N)
}

// flatKeys: k1 -1 k2 -1 ... (byte codes are never negative)
func flatKeys(ks [][]int) []int {
	out := []int{}
	for _, k := range ks {
		out = append(append(out, k...), -1)
	}
	return out
}

func trieIsObs(o tt.Op) bool { return o.N != "put" && o.N != "new" }

func drainQ(q trie.Queuer[string]) [][]int {
	out := [][]int{}
	for i := 0; i < 100000 && q.Size() > 0; i++ {
		k, err := q.Dequeue()
		if err != nil {
			break
		}
		out = append(out, bytesOf(k))
	}
	return out
}

func (s *trieSys) Proj() any {
	p := zeroTrieProj()
	p.PP = tt.Safe(func() {
		get, sw, lp, full := s.probes()
		p.Size = s.t.Size()
		if full {
			p.Full = true
			// an earlier result that the caller did not (fully) consume must not leak into the next one
			if len(sw) > 1 {
				s.t.StartsWith(sw[1])
			}
			q, _ := s.t.Keys()
			p.Keys = drainQ(q)
			s.t.Keys() // left undrained on purpose before the queries below
		}
		for _, k := range get {
			v, ok := s.t.Get(k)
			p.GQ = append(p.GQ, bytesOf(k))
			p.GF = append(p.GF, ok)
			p.GV = append(p.GV, v)
			p.CF = append(p.CF, s.t.Contains(k))
		}
		for i, k := range sw {
			q, err := s.t.StartsWith(k)
			p.SQ = append(p.SQ, bytesOf(k))
			p.SE = append(p.SE, err != nil)
			if i%2 == 1 && q != nil && q.Size() > 1 {
				// consume only part of this one first: the next query must still stand on its own
				first, _ := q.Dequeue()
				rest := drainQ(q)
				p.SR = append(p.SR, append([][]int{bytesOf(first)}, rest...))
				s.t.StartsWith(k) // and leave a complete result behind
				continue
			}
			p.SR = append(p.SR, drainQ(q))
		}
		for _, k := range lp {
			r, err := s.t.LongestPrefix(k)
			p.LQ = append(p.LQ, bytesOf(k))
			p.LE = append(p.LE, err != nil)
			p.LR = append(p.LR, bytesOf(r))
		}
	})
	return p
}

func stringsUpTo(alpha string, n int) []string {
	out := []string{""}
	level := []string{""}
	for l := 1; l <= n; l++ {
		var nl []string
		for _, p := range level {
			for i := 0; i < len(alpha); i++ {
				nl = append(nl, p+alpha[i:i+1])
			}
		}
		out = append(out, nl...)
		level = nl
	}
	return out
}

func trieExplorer(depth int, alpha string, keyLen int) *tt.Explorer {
	get := stringsUpTo(alpha, keyLen)
	sw := stringsUpTo(alpha, 2)
	lp := stringsUpTo(alpha, keyLen+1)
	keys := get[1:]
	return &tt.Explorer{
		New: func() tt.Sys {
			return &trieSys{probes: func() ([]string, []string, []string, bool) { return get, sw, lp, true }}
		},
		ZeroProj: zeroTrieProj(),
		Ops: func(path []tt.Op) []tt.Op {
			if len(path) == 0 {
				return []tt.Op{op("new")}
			}
			if len(path) > depth {
				return nil
			}
			var r []tt.Op
			for _, k := range keys {
				r = append(r, op("put", append([]int{len(path)}, bytesOf(k)...)...))
			}
			// observers between the first puts (never two in a row, never last: the projection follows anyway;
			// not beyond the third position, the deep tier's tree would not be validated in time)
			if len(path) < depth && len(path) <= 3 && !trieIsObs(path[len(path)-1]) {
				r = append(r, op("sw", bytesOf(alpha[:1])...), op("sw", bytesOf(alpha[:1]+alpha[1:2])...), op("keys"),
					op("get", bytesOf(alpha[:1])...), op("lp", bytesOf(alpha[:1]+alpha[1:2]+alpha[1:2])...))
			}
			return r
		},
		SplitDepth: 2,
	}
}

// trieLinear: seeded key sets with shared prefixes, nested keys and non-ASCII bytes.
func trieLinear(cfg Config, file string, runs, steps int) (int, error) {
	ls, err := tt.NewLinearSet(file, zeroTrieProj())
	if err != nil {
		return 0, err
	}
	rng := rand.New(rand.NewSource(cfg.Seed))
	alpha := []byte{0x00, 0x61, 0x7f, 0x80, 0xc3, 0xff}
	for r := 0; r < runs; r++ {
		var put []string
		step := 0
		randKey := func() string {
			if len(put) > 0 && rng.Intn(3) == 0 { // nested: extension or proper prefix of a stored key
				k := put[rng.Intn(len(put))]
				if rng.Intn(2) == 0 && len(k) > 1 {
					return k[:1+rng.Intn(len(k)-1)]
				}
				return k + string(alpha[rng.Intn(len(alpha))])
			}
			n := 1 + rng.Intn(4)
			if rng.Intn(25) == 0 { // long keys, around the sizes an implementation may special-case
				n = []int{31, 32, 33, 63, 64, 65, 100, 255, 256, 300}[rng.Intn(10)]
			}
			b := make([]byte, n)
			for i := range b {
				b[i] = alpha[rng.Intn(len(alpha))]
			}
			return string(b)
		}
		s := &trieSys{}
		s.probes = s.linProbes
		_ = step
		ls.Run(s, func(st int) (tt.Op, bool) {
			step = st
			if st == 0 {
				return op("new"), true
			}
			if st > steps {
				return tt.Op{}, false
			}
			if len(put) > 0 && rng.Intn(6) == 0 { // an observer call between the puts
				k := put[rng.Intn(len(put))]
				switch rng.Intn(5) {
				case 0:
					return op("sw", bytesOf(k[:1+rng.Intn(len(k))])...), true
				case 1:
					return op("sw", bytesOf(randKey())...), true // most likely nothing below it (yet)
				case 2:
					return op("get", bytesOf(k)...), true
				case 3:
					return op("lp", bytesOf(k+"\x00")...), true
				default:
					if len(put) < 60 {
						return op("keys"), true
					}
					return op("get", bytesOf(randKey())...), true
				}
			}
			k := randKey()
			put = append(put, k)
			return op("put", append([]int{st}, bytesOf(k)...)...), true
		})
	}
	return ls.Close()
}

func init() {
	drivers["trie"] = driver{
		run: func(cfg Config) (*Summary, error) {
			s := &Summary{Extra: map[string]any{}}
			st, err := trieExplorer(cfg.Depth, "ab", 3).Explore(cfg.Out+".tree", cfg.Shards)
			if err != nil {
				return nil, err
			}
			s.add(st)
			{ // random walks: up to 10 puts over keys of length 1..3 over {a,b,c}
				nch, ln := 300, 10
				if cfg.Tier == "thorough" {
					nch *= 6
				}
				rf := cfg.Out + ".rnd.abc.lin.ndjson"
				rn, err := tt.RandomChains(trieExplorer(ln, "abc", 3), rf, nch, ln, cfg.Seed*31+7)
				if err != nil {
					return nil, err
				}
				s.Files = append(s.Files, rf)
				s.Nodes += rn
				s.Leaves += nch
				s.Extra["random_walks"] = nch
			}
			// a 3-letter alphabet at depth 3 (keys up to length 2)
			st, err = trieExplorer(3, "abc", 2).Explore(cfg.Out+".abc.tree", 4)
			if err != nil {
				return nil, err
			}
			s.add(st)
			runs, steps := 4, 300
			if cfg.Tier == "thorough" {
				runs, steps = 12, 600
			}
			f := cfg.Out + ".lin.ndjson"
			n, err := trieLinear(cfg, f, runs, steps)
			if err != nil {
				return nil, err
			}
			s.Files = append(s.Files, f)
			s.Nodes += n
			s.Leaves += runs
			s.Extra["linear_runs"] = runs
			s.Extra["linear_nodes"] = n
			if err := sparsePass(cfg, s, func(f string) (int, error) {
				return trieLinear(cfg, f, runs, steps)
			}); err != nil {
				return nil, err
			}
			return s, nil
		},
		newSys: func(variant string) (func() tt.Sys, any) {
			if variant == "lin" {
				return func() tt.Sys { s := &trieSys{}; s.probes = s.linProbes; return s }, zeroTrieProj()
			}
			alpha, kl := "ab", 3
			if variant == "abc" {
				alpha, kl = "abc", 2
			}
			if variant == "rnd" { // the random walks: one instance, observed after every call
				alpha, kl = "abc", 3
			}
			get := stringsUpTo(alpha, kl)
			sw := stringsUpTo(alpha, 2)
			lp := stringsUpTo(alpha, kl+1)
			return func() tt.Sys {
				return &trieSys{probes: func() ([]string, []string, []string, bool) { return get, sw, lp, true }}
			}, zeroTrieProj()
		},
	}
}
