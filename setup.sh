#!/bin/sh
# MANIFEST.setup_cmd: offline; checks the toolchain and warms the Go build cache
# (harness against the plain and against the rewritten scratch copy, rewriter).
set -e
cd "$(dirname "$0")"
export GOFLAGS=-mod=mod GOPROXY=off GOSUMDB=off GOTOOLCHAIN=local
command -v java >/dev/null
command -v go >/dev/null
test -f /opt/veriftools/tla/tla2tools.jar
T=$(mktemp -d /tmp/verif-setup-XXXXXX)
trap 'rm -rf "$T"' EXIT
mkdir -p "$T/gogu"
(cd /repo && git ls-files -co --exclude-standard | grep -E '(\.go|go\.mod|go\.sum)$' | grep -v '_test\.go$' | while read f; do mkdir -p "$T/gogu/$(dirname "$f")"; [ -f "$f" ] && cp "$f" "$T/gogu/$f"; done)
cp -r harness "$T/harness"
cp "$T/gogu/go.sum" "$T/harness/go.sum"
(cd "$T/harness" && go build -o "$T/drive" ./cmd/drive)
(cd tools && go build -o "$T/rewrite" ./rewrite)
# the rewritten copy (shims + probes) and the harness with the drivers that use them
cp -r shim "$T/gogu/zzshim"
SF="$HOME/go/pkg/mod/golang.org/x/sync@v0.1.0/singleflight/singleflight.go"
if [ -f "$SF" ]; then
  mkdir -p "$T/gogu/zzshim/singleflight"
  sed 's#"sync"#sync "github.com/esimov/gogu/zzshim/vsync"#' "$SF" > "$T/gogu/zzshim/singleflight/singleflight.go"
  "$T/rewrite" -dir "$T/gogu" -imports -probes heap,bstree,trie,queue,stack,cache,list >/dev/null
  (cd "$T/gogu" && go build ./...)
  (cd "$T/harness" && go build -tags vshim -o "$T/drive-v" ./cmd/drive)
fi
mkdir -p evidence
echo "setup ok"
