#!/bin/sh
# MANIFEST.setup_cmd: offline; checks the toolchain and warms the Go build cache.
set -e
cd "$(dirname "$0")"
export GOFLAGS=-mod=mod GOPROXY=off GOSUMDB=off GOTOOLCHAIN=local
command -v java >/dev/null
command -v go >/dev/null
test -f /opt/veriftools/tla/tla2tools.jar
T=$(mktemp -d /tmp/verif-setup-XXXXXX)
trap 'rm -rf "$T"' EXIT
mkdir -p "$T/gogu"
(cd /repo && git ls-files -co --exclude-standard | grep -E '(\.go|go\.mod|go\.sum)$' | grep -v '_test\.go$' | while read f; do mkdir -p "$T/gogu/$(dirname "$f")"; [ -f "$f" ] && cp "$f" "$T/gogu/$f"; done)
cp -r harness "$T/harness"
cp "$T/gogu/go.sum" "$T/harness/go.sum"
(cd "$T/harness" && go build -o "$T/drive" ./cmd/drive)
mkdir -p evidence
echo "setup ok"
