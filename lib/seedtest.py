#!/usr/bin/env python3
"""seedtest.py <property id> <mutant dir> [--name NAME] [--tier quick] [--keep-always]

Confirms a seeded change independently and tries the registered check on it.

  1. scratch worktree of /repo (under /tmp); the patch applies, the tree builds and the
     repository's own suite passes (the two tests flaky at baseline are ignored);
  2. the demonstration fails with the change and passes without it;
  3. ./check <id> runs with VERIF_REPO pointing at the changed worktree and with the evidence
     directory redirected (evidence/ only ever describes the unchanged tree);
  4. the change is stored as /verif/seeded/<NAME>/ {patch.diff, demo_test.go, meta.json}.

/repo itself is never touched.  Prints one JSON line with the outcome.
"""
import json, os, re, shutil, subprocess, sys, tempfile, time

VERIF = os.path.dirname(os.path.dirname(os.path.abspath(__file__)))
GOENV = dict(os.environ, GOFLAGS="-mod=mod", GOPROXY="off", GOSUMDB="off", GOTOOLCHAIN="local")
FLAKY = ("Example_after", "TestFunc_Debounce")


def sh(cmd, cwd=None, env=None, timeout=1800):
    r = subprocess.run(cmd, cwd=cwd, env=env or GOENV, capture_output=True, text=True, timeout=timeout)
    return r.returncode, r.stdout + r.stderr


def suite(wt):
    rc, out = sh(["go", "test", "-vet=off", "-count=1", "-timeout", "25m", "-json", "./..."], cwd=wt)
    failed = set()
    for l in out.split("\n"):
        try:
            e = json.loads(l)
        except Exception:
            continue
        if e.get("Action") == "fail" and e.get("Test"):
            if e["Test"] not in FLAKY:
                failed.add(e["Package"] + "::" + e["Test"])
    build_failed = "[build failed]" in out or "[setup failed]" in out
    return failed, build_failed, out


def main():
    a = sys.argv[1:]
    prop, mdir = a[0], a[1]
    name = None
    tier = "quick"
    checks = [prop]
    if "--name" in a:
        name = a[a.index("--name") + 1]
    if "--tier" in a:
        tier = a[a.index("--tier") + 1]
    if "--checks" in a:
        checks = a[a.index("--checks") + 1].split(",")
    meta = json.load(open(os.path.join(mdir, "meta.json")))
    patch = os.path.abspath(os.path.join(mdir, "patch.diff"))
    demo = os.path.join(mdir, "demo_test.go")
    name = name or "%s-%s" % (prop, os.path.basename(os.path.normpath(mdir)))
    wt = tempfile.mkdtemp(prefix="mt-%s-" % name, dir="/tmp")
    os.rmdir(wt)
    res = dict(name=name, property=prop)
    try:
        rc, out = sh(["git", "-C", "/repo", "worktree", "add", "--detach", wt, "HEAD"])
        if rc:
            raise RuntimeError("worktree: " + out)
        base = subprocess.run(["git", "-C", "/repo", "rev-parse", "HEAD"], capture_output=True, text=True).stdout.strip()
        rc, out = sh(["git", "apply", patch], cwd=wt)
        if rc:
            raise RuntimeError("patch does not apply: " + out)
        rc, out = sh(["go", "build", "./..."], cwd=wt)
        res["builds"] = rc == 0
        if rc:
            raise RuntimeError("does not build: " + out[-800:])
        failed, bf, out = suite(wt)
        if failed or bf:
            # once more: the suite has schedule-dependent tests
            failed2, bf2, out = suite(wt)
            failed, bf = failed & failed2, bf and bf2
        res["suite_passes"] = not failed and not bf
        res["suite_failures"] = sorted(failed)
        ddir = os.path.join(wt, meta.get("demo_dir", "."))
        dst = os.path.join(ddir, "zz_demo_test.go")
        shutil.copyfile(demo, dst)
        run = meta.get("demo_run", "go test -vet=off -count=1 ./...").split()
        m = re.search(r"-run\s+(\S+)", meta.get("demo_run", ""))
        pat = m.group(1).strip("'\"") if m else "."
        rel = "./" + meta.get("demo_dir", ".").strip("./") if meta.get("demo_dir", ".") not in (".", "") else "."
        cmd = ["go", "test", "-vet=off", "-count=1", "-run", pat, rel]
        if "-race" in meta.get("demo_run", ""):
            cmd.insert(2, "-race")
        rc_m, out_m = sh(cmd, cwd=wt)
        res["demo_fails_with_change"] = rc_m != 0
        os.remove(dst)
        sh(["git", "checkout", "--", "."], cwd=wt)
        shutil.copyfile(demo, dst)
        rc_c, out_c = sh(cmd, cwd=wt)
        res["demo_passes_without"] = rc_c == 0
        os.remove(dst)
        if not res["demo_passes_without"]:
            res["demo_clean_output"] = out_c[-600:]
        rc, out = sh(["git", "apply", patch], cwd=wt)
        confirmed = res["suite_passes"] and res["demo_fails_with_change"] and res["demo_passes_without"]
        res["confirmed"] = confirmed
        ev = tempfile.mkdtemp(prefix="mt-ev-", dir="/tmp")
        det = {}
        for c in checks:
            t0 = time.time()
            env = dict(os.environ, VERIF_REPO=wt, VERIF_EVIDENCE_DIR=ev, VERIF_TIER=tier)
            r = subprocess.run([os.path.join(VERIF, "check"), c, "--tier", tier], cwd=VERIF, env=env,
                               capture_output=True, text=True, timeout=3600)
            vio = [l for l in r.stdout.split("\n") if l.startswith("VIOLATION")]
            det[c] = dict(rc=r.returncode, violation_lines=len(vio), wall_s=round(time.time() - t0, 1),
                          tail=(r.stderr[-700:] if r.returncode not in (0, 1) else ""),
                          what=[l for l in r.stderr.split("\n") if "unexplained" in l or "VIOL" in l][:2])
        shutil.rmtree(ev, ignore_errors=True)
        res["checks"] = det
        res["detected"] = any(d["rc"] == 1 and d["violation_lines"] > 0 for d in det.values())
        if confirmed or "--keep-always" in a:
            sd = os.path.join(VERIF, "seeded", name)
            os.makedirs(sd, exist_ok=True)
            if os.path.abspath(patch) != os.path.abspath(os.path.join(sd, "patch.diff")):
                shutil.copyfile(patch, os.path.join(sd, "patch.diff"))
                shutil.copyfile(demo, os.path.join(sd, "demo_test.go"))
            meta.update(property=prop, base_commit=base, confirmed=confirmed,
                        what_i_ran=["git apply patch.diff in a scratch worktree of /repo; go build ./...; go test -vet=off -count=1 ./... (passes)",
                                    "demo copied to %s: `%s` fails with the change, passes without" % (meta.get("demo_dir", "."), " ".join(cmd)),
                                    "VERIF_REPO=<worktree> ./check %s --tier %s" % (",".join(checks), tier)],
                        check_result={c: dict(rc=d["rc"], violation_lines=d["violation_lines"], wall_s=d["wall_s"]) for c, d in det.items()},
                        detected=res["detected"])
            json.dump(meta, open(os.path.join(sd, "meta.json"), "w"), indent=1)
    except Exception as e:
        res["error"] = str(e)[-1200:]
    finally:
        sh(["git", "-C", "/repo", "worktree", "remove", "--force", wt])
        shutil.rmtree(wt, ignore_errors=True)
        sh(["git", "-C", "/repo", "worktree", "prune"])
    print(json.dumps(res))


if __name__ == "__main__":
    main()
