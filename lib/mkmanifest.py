#!/usr/bin/env python3
"""Regenerates MANIFEST.json from the table below (kept next to the code so the
manifest is valid at all times)."""
import json, os, subprocess
V = os.path.dirname(os.path.dirname(os.path.abspath(__file__)))

ALL = ["C%02d" % i for i in range(1, 21)]

# property -> (design_ref, technique, level text, level_note)
CHECKS = {
 "C03": ("7/C03", "TLC model check of Heap.tla + TLC validation of tree-shaped recordings of the real heap",
         "TLC checks Heap!OutF (nondeterministic among comparator-minimal elements) against the minimality/conservation wording over insert/remove history variables; every sequence of Push/Pop/Delete/Clear/Convert/Merge/Meld to depth 3 (thorough 4) from 12 constructor states under three comparators (<, >, by-key with ties), every slice up to length 4 through FromSlice and up to 5 through Sort, and seeded long runs are executed on the real code with Size/IsEmpty/Peek/GetValues observed after every call and a drain at every node; TLC accepts the recording only if every call is an outcome of the spec.",
         "bounded scope; layout is not judged (no property pins it) except by the taint trigger of open finding KF-C03-1, which can only switch judging off below a Delete that left a non-heap array"),
 "C06": ("7/C06", "TLC model check of Stack.tla + TLC validation of tree-shaped recordings of the real stacks",
         "TLC checks Stack!Out against the LIFO wording exhaustively (3 values, 8 ops) and shows that the open finding's deviation violates it; every Push/Pop sequence to depth 7 (thorough 9) on both implementations plus long seeded empty/refill runs is executed on the real code, Size/Peek/Search observed after every call, drain at every node; LStack.Pop's pinned defect is an exact named deviation so checking continues beneath it.",
         "bounded scope plus seeded long runs; the deviation KF-C06-1 is consulted only when no ideal outcome matches"),
 "C04": ("7/C04", "TLC model check of BsTree.tla + TLC validation of tree-shaped recordings of the real tree",
         "TLC checks BsTree!Out against the ordered-map wording over a call history (3 keys, 6 ops) and shows that the open finding's deviation violates SizeIsCount; every Upsert/Delete sequence over keys 0..4 to depth 5 (thorough 6) under both comparators plus seeded long runs over 200 keys (sorted, reversed, random insertion) is executed on the real code with Size, full Traverse and Get of every key observed after every call.",
         "bounded scope plus seeded long runs; KF-C04-1 (size drift on deleting an absent key, pinned by the package example) is an exact deviation with a ghost counter, so everything else stays judged beneath it"),
 "C07": ("7/C07", "TLC model check of LRU.tla + TLC validation of tree-shaped recordings of the real LRU cache",
         "TLC checks LRU!Out against capacity bound, recency order and membership wording over a touch log (3 keys, capacities 1-2, 5 ops); every sequence of Add/Get/Remove/GetOldest/RemoveOldest/RemoveYoungest/Flush to depth 4 (thorough 5) for capacities 1..4 over capacity+1 keys, rejected capacities 0 and -1, a drain by RemoveOldest + Get of every key at every node, and seeded long runs with capacities 5/16/64 are executed on the real code with Count and GetYoungest observed after every call.",
         "bounded scope plus seeded long runs; only side-effect-free observers are used after each call (Get refreshes recency), destructive observation is a terminal child"),
 "C09": ("7/C09", "TLC model check of Trie.tla + TLC validation of tree-shaped recordings of the real trie",
         "TLC checks the map and the prefix-query definitions against the wording (exact keys, sorted Keys, longest stored prefix, total byte order); every Put sequence over the 14 keys of length 1..3 over {a,b} to depth 4 (thorough 5), a 3-letter alphabet at depth 3, and seeded key sets with nested keys and bytes 0x00/0x7f/0x80/0xc3/0xff are executed on the real code with Size, drained Keys, Get/Contains of every string up to length 3 (incl. empty), StartsWith of every prefix up to 2 and LongestPrefix of every query up to 4 observed after every Put.",
         "bounded scope plus seeded runs; result queue is queue.Queue (the only gogu type implementing trie.Queuer); Put of an empty key is outside the stated domain"),
 "C10": ("7/C10", "TLC model check of BTree.tla + TLC validation of tree-shaped recordings of the real B-tree",
         "TLC checks BTree!Out against the ordered-map wording over a call history; every Put/Remove sequence over keys 0..5 to depth 5 (thorough 6) plus seeded long runs over 400 keys in ascending, descending and random order (multi-level splits) is executed on the real code with Size, IsEmpty, Height (2^Height <= max(1, distinct keys ever inserted)), Traverse and Get observed after every call.",
         "bounded scope plus seeded long runs; Height is an observed value constrained by the stated bound"),
 "C11": ("7/C11", "TLA+ transcription of the helpers (SliceSet.tla) evaluated by TLC over star-shaped recordings of the real functions",
         "every call of Unique/UniqueBy/Union/Intersection(By)/Difference(By)/Without/Duplicate(WithIndex) on all slices up to length 5 (thorough 6) over 3 values, all pairs up to length 3 (4) and triples up to 2 (3), all nestings to depth 3 incl. malformed elements, 4 key functions, plus seeded larger inputs is executed on the real code (panics recovered) and TLC decides res in Allowed(fn, args); Duplicate is judged as a set, the ...By helpers by the statement's relation.",
         "bounded input scope; ints only (the helpers are generic and never inspect the element type); named callback family implemented in Go and in Fn.tla"),
 "C12": ("7/C12", "TLA+ transcription of the helpers (Reshape.tla) evaluated by TLC over star-shaped recordings of the real functions",
         "Chunk sizes 1..8, Drop counts -9..9, Partition/Filter/Reject/DropWhile/DropRightWhile/GroupBy with 5 predicates and 4 key functions on all slices up to length 6 (7) over 3 values, Merge, all square matrices up to 3x3 over 2 values for Zip/Unzip, all nestings to depth 3 for Flatten, Reverse/ReverseStr with their involution, Shuffle as a permutation, and the visit-once-in-order contract of Map/ForEach/ForEachRight/Reduce through a callback log; TLC decides each recorded call.",
         "bounded input scope; Shuffle is only checked to be a permutation (the statement asks no more)"),
 "C13": ("7/C13", "TLA+ transcription of the helpers (Search.tla) evaluated by TLC over star-shaped recordings of the real functions",
         "IndexOf/LastIndexOf/FindIndex/FindLastIndex/FindAll/Contains/Some/Every/Nth (indices in [-len-3, len+3]) on all slices up to length 5 (6); FindMin/Max/Min/Max/...By/...ByKey incl. empty inputs; Sum/SumBy/Mean with Go's truncating division; Abs/Clamp/InRange over int8 triples around 0 and at the type bounds; Compare/Less/Equal/Enclose; Range/RangeRight for all (start, step, end) in [-10,10]^3 and the 1- and 2-argument forms; a panic is never an allowed result.",
         "integer arithmetic only (floats, overflow beyond int8 wrap, NaN are out of reach of TLC's integers: stated limit in DESIGN section 10)"),
 "C14": ("7/C14", "TLA+ transcription of the helpers (MapOps.tla) evaluated by TLC over star-shaped recordings of the real functions",
         "all 256 maps over 4 keys x 3 values, key lists up to length 2, 5 value predicates, 4 pair predicates, 3 key transformations, collections of up to 3 maps; every call repeated 3 (8) times so that Go's randomised map iteration is exercised; helpers whose choice or order is unspecified (FindKey, FindByKey, Invert, MapUnique, MapKeys on collisions, Keys/Values order) are judged by their defining relation; SliceToMap's documented panic on unequal lengths is the only accepted panic.",
         "bounded input scope; int keys and values"),
 "C15": ("7/C15", "TLA+ transcription of the helpers (StrOps.tla) evaluated by TLC over star-shaped recordings of the real functions",
         "strings over {a, B, 1, o-umlaut (2 bytes), space, -, _, &, *} up to 4 runes (sampled above length 2 in the quick tier), offsets/lengths/indices/sizes within +-3 of the byte length, 8 tokens incl. the empty one; Substr, Pad*, SplitAtIndex, Wrap/Unwrap (round trip and non-wrapped inputs), WrapAllRune, ReverseStr are exact byte/rune-level definitions; case mapping by an explicit table; Camel/Snake/Kebab by the relational clauses of the statement (letters and digits kept in order, own separator only, lower-case, idempotent, equal up to the delimiter).",
         "Unicode case mapping only for the table in the spec; no coverage-guided fuzzing (other family); padding with an empty token is outside the stated domain"),
 "C16": ("7/C16", "TLC model check of Frame.tla (frame conditions over buffers) + TLC validation of recorded helper-call chains on sentinel-filled backing arrays",
         "a state machine over argument backing arrays INCLUDING spare capacity (filled with sentinels), argument views and earlier results; 27 slice helpers (incl. heap.FromSlice/heap.Sort and an aggregate of 18 scalar helpers) and 18 map helpers x 24 slice placements (6 contents x 2 second arguments x spare capacity 0 and 4) / 5 maps x every ordered pair (thorough: triple) of calls sharing the arguments; after every call the buffers, and every earlier result re-read through the same reference, are compared with the frame conditions by TLC (arguments unchanged unless the contract is in-place, then only that argument's first len elements; nothing beyond len ever; an earlier result changes only as a window onto an in-place-edited buffer); aliasing is computed by pointer arithmetic in the driver; FrameMC shows an appending merge violates the conditions.",
         "strings are immutable in Go, so string helpers cannot disturb anything and are not driven; a write that stores an identical value is not seen; in-place contents are judged in C11-C15"),
 "C18": ("7/C18", "TLC model check of CallCount.tla + TLC validation of recorded call chains of the real wrappers",
         "After and Before for n in -2..8 x 12 calls, Once x 8 calls, Retry for n in -2..8 x every success/failure pattern up to length 6 (thorough 8), RetryWithDelay lower bound on wall-clock gaps; the callback counts its own invocations and returns its number, so a callback that ran twice is visible; TLC checks the counting formulas on the model and validates every recorded call.",
         "Before/Once use a fresh never-expiring cache per sequence; the 'for as long as its cache entry lives' clause is exercised by the expiring-cache property C08, not here; delays are wall-clock lower bounds only"),
 "C19": ("7/C19", "TLC model check of List.tla + TLC validation of tree-shaped recordings of the real lists",
         "TLC checks List!Out against 'never empty' and 'no edit loses, duplicates or reorders the other elements'; every edit sequence (Unshift, Append, Shift, Pop, InsertAfter/InsertBefore/Delete/Replace on every value used so far and an absent one, handles from Find immediately before use) to depth 4 (thorough 5: 2.1 million nodes) on both list types plus seeded long runs that shrink to one element and regrow is executed on the real code with Each (twice, around the Finds), First, Last and Find of every value observed after every call; a panic is a result no outcome allows.",
         "bounded scope plus seeded long runs; distinct inserted values and fresh handles as the property's quantifier states; return values of Shift/Pop are not constrained (the statement does not)"),
 "C08": ("7/C08", "TLC model check of ExpCache.tla + TLC validation of tree-shaped recordings of the real cache running on a virtual clock",
         "the library's `time` import is redirected (scratch copy only) to a virtual clock owned by the driver, so every placement of a call relative to a deadline or to a cleanup tick is enumerated exactly instead of slept for; TLC checks ExpCache!Out against the wording over ghost history (live entries kept with their latest value, no-expiry entries never purged, expired entries gone within one cleanup interval, Set/Update/MapToCache/DeleteExpired rules); every sequence of 36 operations (Set/Update x 3 keys x durations default/none/2/10, rejected values, Delete, Flush, DeleteExpired, MapToCache incl. a duplicate key and a rejected value, Tick 1/2/5) to depth 3 (thorough 4) under 6 configurations (default -1/0/4 x cleanup interval 0/6, the real cleanup goroutine driven by virtual ticker ticks with a completion barrier) plus seeded long runs over 8 keys is executed on the real code with Count, List, Get and IsExpired of every key observed after every call.",
         "exact in virtual time only (no wall-clock pass); the spec is permissive where the statement is: an observation exactly at a deadline, Count/List of expired-unpurged entries, Delete's result for a non-live key, the moment cleanup removes an expired entry (any time after the deadline, at the latest one interval after it)"),
 "C20": ("7/C20", "TLC model checks of Debounce.tla and Throttle.tla + TLC validation of recordings of the real Delay/debounce (virtual clock) and of every interleaving of throttle programs (controlled scheduler + virtual clock)",
         "the library's `sync` and `time` imports are redirected (scratch copy only) to a controllable scheduler and a virtual clock. Delay/NewDebounce: every sequence of call/cancel/stop and clock jumps of 1/3/4/5 units (wait 4, 1, 0) to depth 6 (thorough 8) plus seeded bursts of up to 50 calls with gaps below/at/above waits 5/20/50 and cancels anywhere; every scheduled function logs its id and the virtual instant it ran at, and TLC accepts the recording only if each run is at or after last call + wait, once per burst, never after cancel, and has happened once the clock passed last call + wait. Throttle: for every script over {Call, Cancel, Advance 2/4/5} up to length 3 (thorough 4), trailing on/off, with 1 thread calling Next once or twice or 2 threads once, EVERY interleaving of the critical sections within a preemption bound of 2 (thorough 3; switches at blocking points are free) is executed on the real code; the event sequence (calls, cancels, each clock jump as it happens, Next invocations/returns, the threads still parked at quiescence) is validated against Throttle.tla with the unlogged Grant/Deny linearization step searched between invocation and return: at most one permission per period, one stored trigger however many arrive, a trailing trigger only when configured, false promptly after Cancel, nobody left parked while a permission or a cancel is available. TLC also checks both specs against the wording over logs and shows that enabling the repaired defect (early hand-out of a trailing trigger) violates Spacing.",
         "exact in virtual time only (no wall-clock pass); interleavings are complete at critical-section granularity up to the preemption bound; a trigger exactly at the end of a period and a run exactly at last call + wait may go either way; which function of a burst runs is not pinned by the statement"),
 "C02": ("7/C02", "TLC validation of every interleaving of small concurrent programs on the real containers against Lin.tla (linearizability as a subset construction over the sequential specs), with the acceptor itself model-checked",
         "the library's `sync` import is redirected (scratch copy only) to a controlled scheduler: exactly one thread runs, and it hands the baton back before every lock acquisition and at every call boundary. For each of the 8 lock-guarded types (stack, linked stack, queue, linked queue, heap, bstree, trie, expiring cache), 2-3 initial contents and every program of 2 threads x (2,1) or (1,1) calls (thorough: also 2 x (2,2) and 3 x 1) over its single-element operations (5-7 per type), EVERY interleaving of critical sections within a preemption bound of 2 (thorough 3) is executed on the real code, followed by observations of the final contents (size/count, drain or traversal, lookups). Each execution is an event sequence (invocations, returns with results, observations); TLC validates it against Lin.tla, which searches the unlogged linearization points between invocation and return over the SAME sequential Out operators that decide C03-C06/C08/C09 (reused through INSTANCE), so an execution is accepted iff some order of the calls that respects finished-before-began explains every result and the contents afterwards. LinMC.tla shows the acceptor accepts every history of an atomic model and rejects histories of a split dequeue.",
         "complete at critical-section granularity up to the preemption bound, for the program shapes listed; the scheduler's completeness rests on shared accesses being inside critical sections (C01 checks that); behaviours pinned by open sequential findings (LStack.Pop, BsTree size drift) count as the sequential meaning here"),
 "C05": ("7/C05", "TLC model check of Queue.tla + TLC validation of tree-shaped recordings of the real queues",
         "TLC checks Queue!Out against the FIFO/exactly-once/size wording exhaustively (3 values, 7 ops); every Enqueue/Dequeue/Clear sequence to depth 6 (thorough 8) on both implementations plus long seeded drain/refill runs is executed on the real code, with Size/Peek/Search observed after every call and a drain at every node, and TLC accepts the recording only if every call is an outcome of Queue!Out.",
         "bounded scope (depth, 3-value alphabet) plus seeded long runs; observers are the public API; TLC, the Go toolchain and the driver's projection are trusted"),
}

def main():
    fixed = subprocess.run(["git", "-C", "/repo", "log", "--format=%h %s"], capture_output=True, text=True).stdout.split("\n")
    checks = []
    for pid in ALL:
        if pid not in CHECKS:
            continue
        ref, tech, text, note = CHECKS[pid]
        checks.append(dict(
            property_id=pid,
            quick_cmd="./check %s --tier quick" % pid,
            thorough_cmd="./check %s --tier thorough" % pid,
            evidence_file="/verif/evidence/%s.json" % pid,
            replay_cmd_template="./check %s --replay {path}" % pid,
            engine="tlc-trace",
            level_claimed=dict(category="model_checking", text=text, design_ref=ref),
            level_note=note,
            technique=tech))
    na = [dict(property_id=p, reason="check not built yet in this round of work (planned, see DESIGN.md section 7); not claimed until it runs")
          for p in ALL if p not in CHECKS]
    m = dict(
        version=1,
        setup_cmd="./setup.sh",
        hooks=dict(guard="verif", enable="none needed: checks instrument a scratch copy of the working tree (DESIGN.md section 5); the tag 'verif' is reserved",
                   baseline_off_cmd="cd /repo && go test -vet=off -count=1 -timeout 25m ./...",
                   source_commits=[], add_only=True),
        engines=[dict(name="tlc-trace", path="/verif/check",
                      serves_properties=[c["property_id"] for c in checks],
                      kind_free_text="explicit TLA+ specifications (spec/), TLC exhaustive model checks of the specs, and TLC validation of recordings of the real code produced by Go drivers (harness/)")],
        checks=checks,
        notes="fix: commits in /repo: " + "; ".join(l for l in fixed if " fix:" in l),
        not_applicable=na)
    with open(os.path.join(V, "MANIFEST.json"), "w") as f:
        json.dump(m, f, indent=1)
        f.write("\n")

if __name__ == "__main__":
    main()
