#!/usr/bin/env python3
"""Regenerates MANIFEST.json from the table below (kept next to the code so the
manifest is valid at all times)."""
import json, os, subprocess
V = os.path.dirname(os.path.dirname(os.path.abspath(__file__)))

ALL = ["C%02d" % i for i in range(1, 21)]

# property -> (design_ref, technique, level text, level_note)
CHECKS = {
 "C05": ("7/C05", "TLC model check of Queue.tla + TLC validation of tree-shaped recordings of the real queues",
         "TLC checks Queue!Out against the FIFO/exactly-once/size wording exhaustively (3 values, 7 ops); every Enqueue/Dequeue/Clear sequence to depth 6 (thorough 8) on both implementations plus long seeded drain/refill runs is executed on the real code, with Size/Peek/Search observed after every call and a drain at every node, and TLC accepts the recording only if every call is an outcome of Queue!Out.",
         "bounded scope (depth, 3-value alphabet) plus seeded long runs; observers are the public API; TLC, the Go toolchain and the driver's projection are trusted"),
}

def main():
    fixed = subprocess.run(["git", "-C", "/repo", "log", "--format=%h %s"], capture_output=True, text=True).stdout.split("\n")
    checks = []
    for pid in ALL:
        if pid not in CHECKS:
            continue
        ref, tech, text, note = CHECKS[pid]
        checks.append(dict(
            property_id=pid,
            quick_cmd="./check %s --tier quick" % pid,
            thorough_cmd="./check %s --tier thorough" % pid,
            evidence_file="/verif/evidence/%s.json" % pid,
            replay_cmd_template="./check %s --replay {path}" % pid,
            engine="tlc-trace",
            level_claimed=dict(category="model_checking", text=text, design_ref=ref),
            level_note=note,
            technique=tech))
    na = [dict(property_id=p, reason="check not built yet in this round of work (planned, see DESIGN.md section 7); not claimed until it runs")
          for p in ALL if p not in CHECKS]
    m = dict(
        version=1,
        setup_cmd="./setup.sh",
        hooks=dict(guard="verif", enable="none needed: checks instrument a scratch copy of the working tree (DESIGN.md section 5); the tag 'verif' is reserved",
                   baseline_off_cmd="cd /repo && go test -vet=off -count=1 -timeout 25m ./...",
                   source_commits=[], add_only=True),
        engines=[dict(name="tlc-trace", path="/verif/check",
                      serves_properties=[c["property_id"] for c in checks],
                      kind_free_text="explicit TLA+ specifications (spec/), TLC exhaustive model checks of the specs, and TLC validation of recordings of the real code produced by Go drivers (harness/)")],
        checks=checks,
        notes="fix: commits in /repo: " + "; ".join(l for l in fixed if " fix:" in l),
        not_applicable=na)
    with open(os.path.join(V, "MANIFEST.json"), "w") as f:
        json.dump(m, f, indent=1)
        f.write("\n")

if __name__ == "__main__":
    main()
