import json,jsonschema,sys,glob
m=json.load(open('/verif/MANIFEST.json')); jsonschema.validate(m,json.load(open('/root/.vp/MANIFEST.schema.json'))); print('manifest ok', len(m['checks']), [x['property_id'] for x in m.get('not_applicable',[])])
es=json.load(open('/root/.vp/EVIDENCE.schema.json'))
for f in sorted(glob.glob('/verif/evidence/C*.json')):
    try: jsonschema.validate(json.load(open(f)),es)
    except Exception as e: print('BAD',f,str(e)[:300])
print('evidence checked')
