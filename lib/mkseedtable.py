#!/usr/bin/env python3
"""Regenerates section 13 of DESIGN.md (between the markers) from seeded/*/meta.json."""
import glob, json, os, re
V = os.path.dirname(os.path.dirname(os.path.abspath(__file__)))
rows = []
for f in sorted(glob.glob(os.path.join(V, "seeded", "*", "meta.json"))):
    m = json.load(open(f))
    name = os.path.basename(os.path.dirname(f))
    cr = m.get("check_result", {})
    by = ", ".join("%s (exit %s)" % (c, r.get("rc")) for c, r in cr.items())
    rows.append("| %s | %s | %s | %s | %s |" % (
        name, m.get("property"), (m.get("summary") or "").replace("|", "/")[:230],
        (m.get("needs") or "").replace("|", "/")[:230],
        ("caught by " + by) if m.get("detected") else ("MISSED: " + by)))
body = ["<!-- seedtable:begin -->",
        "| change | property | what was changed | what it needs to manifest | quick check |",
        "|---|---|---|---|---|"] + rows + ["<!-- seedtable:end -->"]
p = os.path.join(V, "DESIGN.md")
s = open(p).read()
if "<!-- seedtable:begin -->" in s:
    s = re.sub(r"<!-- seedtable:begin -->.*<!-- seedtable:end -->", lambda _: "\n".join(body), s, flags=re.S)
    open(p, "w").write(s)
print(len(rows), "rows;", sum(1 for r in rows if "MISSED" in r), "missed")
