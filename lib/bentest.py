#!/usr/bin/env python3
"""bentest.py <property id> <benign change dir> [--name NAME] [--checks A,B] [--tier quick]

The opposite of seedtest.py: a change that KEEPS the property (a refactoring, a different but allowed
outcome, coarser locking ...) is applied in a scratch worktree of /repo, the repository's suite is run,
and the registered check is pointed at the worktree (VERIF_REPO).  The check has to stay silent: exit 0,
no VIOLATION line.  The change and the outcome are stored as /verif/benign/<NAME>/ {patch.diff, meta.json}.
/repo itself is never touched.
"""
import json, os, shutil, subprocess, sys, tempfile, time
sys.path.insert(0, os.path.dirname(os.path.abspath(__file__)))
from seedtest import sh, suite, VERIF


def main():
    a = sys.argv[1:]
    prop, mdir = a[0], a[1]
    name = a[a.index("--name") + 1] if "--name" in a else "%s-%s" % (prop, os.path.basename(os.path.normpath(mdir)))
    tier = a[a.index("--tier") + 1] if "--tier" in a else "quick"
    checks = a[a.index("--checks") + 1].split(",") if "--checks" in a else [prop]
    meta = json.load(open(os.path.join(mdir, "meta.json")))
    patch = os.path.abspath(os.path.join(mdir, "patch.diff"))
    wt = tempfile.mkdtemp(prefix="bt-%s-" % name, dir="/tmp")
    os.rmdir(wt)
    res = dict(name=name, property=prop)
    try:
        rc, out = sh(["git", "-C", "/repo", "worktree", "add", "--detach", wt, "HEAD"])
        if rc:
            raise RuntimeError("worktree: " + out)
        base = subprocess.run(["git", "-C", "/repo", "rev-parse", "HEAD"], capture_output=True, text=True).stdout.strip()
        rc, out = sh(["git", "apply", patch], cwd=wt)
        if rc:
            raise RuntimeError("patch does not apply: " + out)
        rc, out = sh(["go", "build", "./..."], cwd=wt)
        if rc:
            raise RuntimeError("does not build: " + out[-800:])
        failed, bf, out = suite(wt)
        if failed or bf:
            failed2, bf2, out = suite(wt)
            failed, bf = failed & failed2, bf and bf2
        res["suite_passes"] = not failed and not bf
        res["suite_failures"] = sorted(failed)
        ev = tempfile.mkdtemp(prefix="bt-ev-", dir="/tmp")
        det = {}
        for c in checks:
            t0 = time.time()
            env = dict(os.environ, VERIF_REPO=wt, VERIF_EVIDENCE_DIR=ev, VERIF_TIER=tier)
            r = subprocess.run([os.path.join(VERIF, "check"), c, "--tier", tier], cwd=VERIF, env=env,
                               capture_output=True, text=True, timeout=3600)
            vio = [l for l in r.stdout.split("\n") if l.startswith("VIOLATION")]
            det[c] = dict(rc=r.returncode, violation_lines=len(vio), wall_s=round(time.time() - t0, 1))
            if r.returncode != 0 or vio:
                keep = "/tmp/bens/alarm-%s-%s" % (name, c)
                os.makedirs(keep, exist_ok=True)
                open(keep + "/stdout", "w").write(r.stdout)
                open(keep + "/stderr", "w").write(r.stderr[-200000:])
                for l in vio[:3]:
                    rp = l.split("replay=")[-1].strip()
                    if os.path.exists(rp):
                        shutil.copy(rp, keep)
                det[c]["kept"] = keep
        shutil.rmtree(ev, ignore_errors=True)
        res["checks"] = det
        res["silent"] = all(d["rc"] == 0 and d["violation_lines"] == 0 for d in det.values())
        sd = os.path.join(VERIF, "benign", name)
        os.makedirs(sd, exist_ok=True)
        if os.path.abspath(patch) != os.path.abspath(os.path.join(sd, "patch.diff")):
            shutil.copyfile(patch, os.path.join(sd, "patch.diff"))
        meta.update(property=prop, base_commit=base, suite_passes=res["suite_passes"],
                    check_result={c: dict(rc=d["rc"], violation_lines=d["violation_lines"], wall_s=d["wall_s"]) for c, d in det.items()},
                    silent=res["silent"])
        json.dump(meta, open(os.path.join(sd, "meta.json"), "w"), indent=1)
    except Exception as e:
        res["error"] = str(e)[-1200:]
    finally:
        sh(["git", "-C", "/repo", "worktree", "remove", "--force", wt])
        shutil.rmtree(wt, ignore_errors=True)
        sh(["git", "-C", "/repo", "worktree", "prune"])
    print(json.dumps(res))


if __name__ == "__main__":
    main()
