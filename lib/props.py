"""Per-property checks.  Each handler returns the number of violations."""
import os
import re
import vlib
from vlib import Infra, log

HANDLERS = {}
REPLAYERS = {}


def handler(pid):
    def deco(f):
        HANDLERS[pid] = f
        return f
    return deco


def prepare_vtime(ctx):
    """scratch copy with `time` redirected to the virtual clock shim; harness built with the drivers that use it"""
    ctx.setup(need_harness=False)
    ctx.apply_shims(only="time")
    ctx.build_harness(tags="vshim")


def prepare_shims(ctx):
    """scratch copy with `sync`, `time` and singleflight redirected to the controllable shims"""
    ctx.setup(need_harness=False)
    sf = os.path.join(os.path.expanduser("~"), "go/pkg/mod/golang.org/x/sync@v0.1.0/singleflight/singleflight.go")
    if not os.path.exists(sf):
        raise Infra("cached source of golang.org/x/sync/singleflight not found")
    ctx.apply_shims(only="sync,time,golang.org/x/sync/singleflight", singleflight=sf)
    ctx.build_harness(tags="vshim")


PROBED = ["heap", "bstree", "trie", "queue", "stack", "cache", "list"]


def prepare_probes(ctx):
    """as prepare_shims, plus access probes in the packages of the lock-guarded containers"""
    ctx.setup(need_harness=False)
    sf = os.path.join(os.path.expanduser("~"), "go/pkg/mod/golang.org/x/sync@v0.1.0/singleflight/singleflight.go")
    if not os.path.exists(sf):
        raise Infra("cached source of golang.org/x/sync/singleflight not found")
    info = ctx.apply_shims(only="sync,time,golang.org/x/sync/singleflight", singleflight=sf, probes=PROBED)
    if info.get("probe_sites", 0) < 50:
        raise Infra("only %s access probes were inserted" % info.get("probe_sites"))
    ctx.build_harness(tags="vshim")


PREPARE = {"C08": prepare_vtime, "C18": prepare_vtime, "C20": prepare_shims, "C17": prepare_shims, "C02": prepare_probes, "C01": prepare_probes}


def seq_container(ctx, driver, trace_module, model_checks, depth, shards=8, extra_args=(), kf_controls=(),
                  variant_of=None, prepare=None, procs=False, after=None):
    """Sequential containers (DESIGN section 7, common part):
       1. TLC model check of the property-level spec against its declarative restatement;
       2. directed probe of every open known finding;
       3. binding B: operation tree + long seeded runs recorded on the real code,
          validated by TLC against the same Out/ProjOK."""
    if prepare:
        ctx.prepare = prepare
        prepare(ctx)
    else:
        ctx.setup()
    opn, _ = vlib.known_findings(ctx.prop)
    for m, c in model_checks:
        ctx.model_check(m, c)
    for m, c, inv in kf_controls:
        ctx.model_check(m, c, expect_violation=inv)
    vlib.probe_known_findings(ctx, trace_module, opn)
    out = os.path.join(ctx.scratch, "t", driver)
    d = depth[ctx.tier]
    try:
        if procs:
            summ = ctx.drive_procs(driver, ["-out", out, "-depth", d] + list(extra_args), shards)
        else:
            summ = ctx.drive(driver, ["-out", out, "-depth", d, "-shards", shards] + list(extra_args))
    except vlib.Crash as c:
        # the real code killed the process (Go fatal error) on these paths, twice, each alone in a fresh process
        for variant, path, why in c.found:
            rp = vlib.write_replay(ctx, driver, variant, trace_module, path, dict(res=dict(p=True, fatal=why), proj={}),
                                   note="the process executing this path dies: " + why)
            log("the code under test kills the process on path=%s (%s)" % (vlib.json.dumps(path, separators=(",", ":"))[:600], why))
            vlib.violation(ctx, rp)
        vlib.write_evidence(ctx, exhaustive=False)
        return len(c.found)
    if summ["nodes"] < 10:
        raise Infra("driver %s recorded only %d nodes" % (driver, summ["nodes"]))
    ctx.samples = [vlib.json.loads(s) if isinstance(s, str) else s for s in summ["samples"]]
    ctx.notes["driver"] = dict(name=driver, depth=d, nodes=summ["nodes"], root_to_leaf_paths=summ["leaves"],
                               panics_recorded=summ["panics"], extra=summ.get("extra", {}))
    kw = dict(variant_of=variant_of) if variant_of else {}
    nviol = vlib.check_recordings(ctx, driver, trace_module, summ["files"], opn, **kw)
    if after and not nviol:
        nviol += after(ctx, summ["files"]) or 0
    vlib.write_evidence(ctx, exhaustive=False)
    return nviol


@handler("C05")
def c05(ctx):
    def after(ctx, files):
        # design level: the linked queue as written (never-empty list + counter) is the ideal queue, also across
        # drain and refill
        ctx.model_check("LinkedQS", "LinkedQS_q.cfg")
        return vlib.binding_a(ctx, "QueueGen", ["QueueGen_q.cfg", "QueueGen_l.cfg"], "queue", "tree", "QueueTrace")
    return seq_container(ctx, "queue", "QueueTrace", [("QueueMC", "QueueMC.cfg")],
                         depth=dict(quick=6, thorough=8), after=after)


@handler("C06")
def c06(ctx):
    def after(ctx, files):
        # design level: the linked stack as written answers wrongly at Pop (KF-C06-1 reproduced); with a Pop that
        # hands back the node it unlinks it is the ideal stack
        ctx.model_check("LinkedQS", "LinkedQS_s.cfg", expect_violation="Answers")
        ctx.model_check("LinkedQS", "LinkedQS_sfixed.cfg")
        return vlib.binding_a(ctx, "StackGen", ["StackGen_s.cfg", "StackGen_l.cfg"], "stack", "tree", "StackTrace")
    return seq_container(ctx, "stack", "StackTrace", [("StackMC", "StackMC.cfg")],
                         depth=dict(quick=7, thorough=9),
                         kf_controls=[("StackMC", "StackMC_kf.cfg", "LIFO")], after=after)


def design_layer(ctx, module, files, tag):
    """Informational binding of a design-level model to the recordings (DESIGN section 8): counts the calls
    whose observed structure equals the model's prediction.  Never a verdict."""
    cfg = ctx.write_cfg(module + "_info.cfg", "SPECIFICATION Spec\nCHECK_DEADLOCK FALSE\n")
    cmpn = diff = 0
    for r in ctx.validate_files([(f, "info") for f in files], module, cfg):
        ctx.require_ok(r, "design-layer pass %s" % module)
        cmpn += len(re.findall(r'^<<"LAYCMP"', r["out"], re.M))
        diff += len(re.findall(r'^<<"LAYDIFF"', r["out"], re.M))
        ctx.states += r["distinct"]
        ctx.transitions += r["generated"]
    ctx.notes[tag] = dict(module=module, calls_compared=cmpn, calls_where_structure_differs=diff,
                          note="informational: no listed property pins the internal structure")


@handler("C03")
def c03(ctx):
    post = []

    def after(ctx, files):
        opn, _ = vlib.known_findings(ctx.prop)
        # design level: the array algorithms as written refine Heap.tla; with Delete as written the array
        # stops being a heap (the open finding KF-C03-1 reproduced on the model), with the repair it does not
        ctx.model_check("HeapArrayMC", "HeapArrayMC.cfg", workers=8)
        if any(k["id"] == "KF-C03-1" for k in opn):
            ctx.model_check("HeapArrayMC", "HeapArrayMC_kf.cfg", expect_violation="IsOrdered")
        design_layer(ctx, "HeapArrayTrace", [f for f in files if "sort" not in f and ".sp." not in f], "design_layer_heap_array")
    return seq_container(ctx, "heap", "HeapTrace", [("HeapMC", "HeapMC.cfg")],
                         depth=dict(quick=3, thorough=4), shards=12, after=after)


@handler("C04")
def c04(ctx):
    def after(ctx, files):
        # design level: the node tree and the recursive upsert/delete/min as written stay a search tree and are
        # the ordered map of BsTree.tla for both comparators; the unconditional size decrement is the open
        # finding: without it in OpenKF a delete of an absent key has no abstract counterpart
        ctx.model_check("BsTreeNodesMC", "BsTreeNodesMC%s.cfg" % ("_deep" if ctx.tier == "thorough" else ""), workers=8, xmx="10g")
        ctx.model_check("BsTreeNodesMC", "BsTreeNodesMC_desc.cfg", workers=8, xmx="10g")
        ctx.model_check("BsTreeNodesMC", "BsTreeNodesMC_kf.cfg", expect_violation="Simulates")
        # binding A: every behaviour of the spec over upsert/delete/get to depth 4-5 stepped through the real tree
        return vlib.binding_a(ctx, "BsTreeGen", ["BsTreeGen_1.cfg", "BsTreeGen_2.cfg"], "bstree", "tree", "BsTreeTrace")
    return seq_container(ctx, "bstree", "BsTreeTrace", [("BsTreeMC", "BsTreeMC.cfg")],
                         depth=dict(quick=5, thorough=6), shards=12, after=after,
                         kf_controls=[("BsTreeMC", "BsTreeMC_kf.cfg", "SizeIsCount")])


@handler("C10")
def c10(ctx):
    def after(ctx, files):
        # design level: the node algorithm (split in halves, root split adds a level, tombstones) refines the
        # ordered map and keeps 2^height <= distinct keys ever put for EVERY order of puts and removes
        ctx.model_check("BTreeNodesMC", "BTreeNodesMC%s.cfg" % ("_deep" if ctx.tier == "thorough" else ""), workers=8, xmx="12g")
        ctx.model_check("BTreeNodesMC", "BTreeNodesMC_orders.cfg", workers=8, xmx="12g")
        design_layer(ctx, "BTreeNodesTrace", [f for f in files if ".lin." not in f] + [f for f in files if ".lin." in f][:1],
                     "design_layer_btree_nodes")
        # binding A: every behaviour of the spec over put/remove/get to depth 4-5 stepped through the real tree
        return vlib.binding_a(ctx, "BTreeGen", ["BTreeGen_1.cfg", "BTreeGen_2.cfg"], "btree", "tree", "BTreeTrace")
    return seq_container(ctx, "btree", "BTreeTrace", [("BTreeMC", "BTreeMC.cfg")],
                         depth=dict(quick=5, thorough=6), shards=12, after=after)


@handler("C07")
def c07(ctx):
    def after(ctx, files):
        # design level: map + circular list with sentinel, pointer by pointer; refines LRU.tla; the repaired
        # RemoveYoungest defect (unlinking the oldest node) breaks the structure invariant
        ctx.model_check("LRUListMC", "LRUListMC.cfg", workers=8, xmx="10g")
        ctx.model_check("LRUListMC", "LRUListMC_kf.cfg", expect_violation="Structure")
        return vlib.binding_a(ctx, "LRUGen", ["LRUGen_1.cfg", "LRUGen_2.cfg", "LRUGen_3.cfg"], "lru", "tree", "LRUTrace")
    return seq_container(ctx, "lru", "LRUTrace", [("LRUMC", "LRUMC.cfg")],
                         depth=dict(quick=4, thorough=5), shards=12, after=after)


@handler("C09")
def c09(ctx):
    def after(ctx, files):
        # design level: the ternary search tree and its recursive algorithms as written implement the map of
        # Trie.tla for every put sequence over 12 keys; without the isValid test (the defect repaired by a409422) they do not
        ctx.model_check("TSTMC", "TSTMC%s.cfg" % ("_deep" if ctx.tier == "thorough" else ""), workers=8, xmx="10g")
        ctx.model_check("TSTMC", "TSTMC_kf.cfg", expect_violation="IsMap")
        # binding A: every behaviour of the spec over put and the queries as calls, depth 4
        return vlib.binding_a(ctx, "TrieGen", ["TrieGen_1.cfg"], "trie", "tree", "TrieTrace")
    return seq_container(ctx, "trie", "TrieTrace", [("TrieMC", "TrieMC.cfg")],
                         depth=dict(quick=4, thorough=5), shards=12, after=after,
                         variant_of=lambda f: "rnd" if ".rnd." in f else "lin" if ".lin." in f else ("abc" if ".abc." in f else "tree"))


@handler("C19")
def c19(ctx):
    def after(ctx, files):
        # design level: the doubly linked list as a pointer graph with its first node stored by value; every edit
        # refines List.tla and keeps the back pointers; Unshift as it was before 49e0e86 breaks them
        ctx.model_check("DListPtrMC", "DListPtrMC%s.cfg" % ("_deep" if ctx.tier == "thorough" else ""), workers=8, xmx="10g")
        ctx.model_check("DListPtrMC", "DListPtrMC_kf.cfg", expect_violation="Links")
        # the singly linked list likewise (Unshift copies the embedded node out, a middle Delete overwrites
        # the node with its successor's contents)
        ctx.model_check("SListPtrMC", "SListPtrMC%s.cfg" % ("_deep" if ctx.tier == "thorough" else ""), workers=8, xmx="10g")
    return seq_container(ctx, "list", "ListTrace", [("ListMC", "ListMC.cfg")],
                         depth=dict(quick=4, thorough=5), shards=12, after=after)


def star_helpers(ctx, driver, trace_module, laws=None, shards=12):
    """Pure helpers (DESIGN 7/C11-C15): the Go driver enumerates inputs, calls the real helper
    (panics recovered) and records star-shaped traces; TLC decides res \\in Allowed(fn, args) with
    Allowed the TLA+ transcription of the statement.  `laws`: a module whose ASSUMEs state the
    algebraic laws TLC checks on the definitions alone."""
    ctx.setup()
    opn, _ = vlib.known_findings(ctx.prop)
    if laws:
        r = ctx.tlc(laws, cfg=laws + ".cfg", workers=4, xmx="4g")
        ctx.require_ok(r, "laws " + laws)
        ctx.states += max(r["distinct"], 1)
        ctx.transitions += max(r["generated"], 1)
        ctx.mc_states += max(r["distinct"], 1)
        ctx.notes.setdefault("model_checks", []).append(dict(module=laws, note="algebraic laws of the definitions (ASSUMEs) hold", wall_s=round(r["wall"], 1)))
    vlib.probe_known_findings(ctx, trace_module, opn)
    out = os.path.join(ctx.scratch, "t", driver)
    summ = ctx.drive(driver, ["-out", out, "-shards", shards])
    if summ["nodes"] < 10:
        raise Infra("driver %s recorded only %d calls" % (driver, summ["nodes"]))
    ctx.notes["driver"] = dict(name=driver, calls=summ["nodes"], panics_recorded=summ["panics"])
    nviol = vlib.check_recordings(ctx, driver, trace_module, summ["files"], opn, variant_of=lambda f: "star")
    # samples: a few recorded calls verbatim
    try:
        with open(summ["files"][0]) as f:
            lines = f.readlines()
        for i in (1, len(lines) // 2, len(lines) - 1):
            n = vlib.json.loads(lines[i])
            ctx.samples.append(dict(op=n["op"], res=n["res"]))
    except Exception:
        pass
    vlib.write_evidence(ctx, exhaustive=False)
    return nviol


@handler("C11")
def c11(ctx):
    return star_helpers(ctx, "sliceset", "SliceSetTrace")


@handler("C12")
def c12(ctx):
    return star_helpers(ctx, "reshape", "ReshapeTrace")


@handler("C13")
def c13(ctx):
    return star_helpers(ctx, "search", "SearchTrace")


@handler("C14")
def c14(ctx):
    return star_helpers(ctx, "mapops", "MapOpsTrace")


@handler("C15")
def c15(ctx):
    return star_helpers(ctx, "strops", "StrOpsTrace")


@handler("C18")
def c18(ctx):
    # on the virtual clock (scratch copy with `time` redirected): RetryWithDelay's waits and the lifetime of
    # Once's cache entry are exact
    return seq_container(ctx, "callcount", "CallCountTrace", [("CallCountMC", "CallCountMC.cfg")],
                         depth=dict(quick=0, thorough=0), shards=1, prepare=prepare_vtime)


@handler("C16")
def c16(ctx):
    return seq_container(ctx, "frame", "FrameTrace", [("FrameMC", "FrameMC.cfg")],
                         depth=dict(quick=2, thorough=3), shards=12)


@handler("C08")
def c08(ctx):
    def after(ctx, files):
        # design level: the cleanup goroutine (ticker, one DeleteExpired pass per tick, stop) keeps the two bounds
        # ExpCache.tla grants it: only expired entries go, and none is left once more than one interval has
        # passed since its deadline; "at least one interval" is too early (negative control)
        ctx.model_check("Janitor", "Janitor.cfg", workers=4)
        ctx.model_check("Janitor", "Janitor_6.cfg", workers=4)
        ctx.model_check("Janitor", "Janitor_early.cfg", expect_violation="MustEarly")
    return seq_container(ctx, "expcache", "ExpCacheTrace", [("ExpCacheMC", "ExpCacheMC.cfg")],
                         depth=dict(quick=3, thorough=4), shards=12, prepare=prepare_vtime, procs=True, after=after)


@handler("C20")
def c20(ctx):
    ctx.prepare = prepare_shims
    prepare_shims(ctx)
    opn, _ = vlib.known_findings(ctx.prop)
    ctx.model_check("DebounceMC", "DebounceMC.cfg")
    deep = "_deep" if ctx.tier == "thorough" else ""
    ctx.model_check("ThrottleMC", "ThrottleMC%s.cfg" % deep, workers=8, xmx="10g")
    ctx.model_check("ThrottleMC", "ThrottleMC_nt%s.cfg" % deep, workers=8, xmx="10g")
    # non-vacuity: with the early hand-out of a stored trailing trigger (the defect repaired by 87aefa9) enabled
    # as an action, the spacing invariant fails
    ctx.model_check("ThrottleMC", "ThrottleMC_kf.cfg", expect_violation="Spacing")
    # design level: the debouncer and the throttle as written, one action per critical section, timers firing
    # without the lock; each with its negative controls
    ctx.model_check("DebounceImpl", "DebounceImpl%s.cfg" % deep, workers=8)
    ctx.model_check("DebounceImpl", "DebounceImpl_delay.cfg")   # Delay = one caller, one arming, Stop as the cancel
    ctx.model_check("DebounceImpl", "DebounceImpl_nolock.cfg", expect_violation="OneArmed")
    ctx.model_check("DebounceImpl", "DebounceImpl_nostop.cfg", expect_violation="OneArmed")
    ctx.model_check("ThrottleImpl", "ThrottleImpl.cfg")
    ctx.model_check("ThrottleImpl", "ThrottleImpl_nt.cfg")
    ctx.model_check("ThrottleImpl", "ThrottleImpl_early.cfg", expect_violation="Spacing")
    ctx.model_check("ThrottleImpl", "ThrottleImpl_unlocked.cfg", expect_violation="NoLostWakeup")
    nviol = 0
    out = os.path.join(ctx.scratch, "t", "debounce")
    summ = ctx.drive_procs("debounce", ["-out", out, "-depth", dict(quick=5, thorough=7)[ctx.tier]], 8)
    if summ["nodes"] < 10:
        raise Infra("driver debounce recorded only %d nodes" % summ["nodes"])
    ctx.notes["driver_debounce"] = dict(nodes=summ["nodes"], root_to_leaf_paths=summ["leaves"], panics_recorded=summ["panics"])
    nviol += vlib.check_recordings(ctx, "debounce", "DebounceTrace", summ["files"], [])
    # throttle: every interleaving (preemption bound 2, thorough 3) of every script up to the depth
    out = os.path.join(ctx.scratch, "t", "throttle")
    summ = ctx.drive_procs("throttle", ["-out", out, "-depth", dict(quick=3, thorough=4)[ctx.tier]], 12)
    if summ["nodes"] < 10:
        raise Infra("driver throttle recorded only %d nodes" % summ["nodes"])
    ctx.notes["driver_throttle"] = dict(nodes=summ["nodes"], distinct_histories=summ["leaves"], extra=summ["extra"])
    nviol += vlib.check_recordings(ctx, "throttle", "ThrottleTrace", summ["files"], opn, variant_of=lambda f: "tree",
                                   reproducer=vlib.sched_reproducer("throttle"))
    vlib.write_evidence(ctx, exhaustive=False)
    return nviol


def all_open_kf_ids():
    opn, _ = vlib.known_findings(None)
    return opn


@handler("C02")
def c02(ctx):
    ctx.prepare = prepare_probes
    prepare_probes(ctx)
    # sequential findings that stay open (pinned by tests) are part of the sequential meaning here
    seq_open = [k for k in all_open_kf_ids() if k["property"] in ("C03", "C04", "C05", "C06", "C08", "C09")]
    opn, _ = vlib.known_findings(ctx.prop)
    # the checker checked: every history of the atomic model is accepted; the split model is rejected
    # (measured: 2 threads x 2 calls 40 s; 3 threads x 1 call 5 s; 3 x 2 and 2 x 3 do not finish in 50 min)
    ctx.model_check("LinMC", "LinMC.cfg", workers=8, xmx="10g", timeout=3000)
    if ctx.tier == "thorough":
        cfg = ctx.write_cfg("LinMC_run.cfg", open(os.path.join(ctx.scratch, "spec", "LinMC.cfg")).read().replace(
            "Calls = 2", "Calls = 1").replace("Threads = {1, 2}", "Threads = {1, 2, 3}"))
        ctx.model_check("LinMC", cfg, workers=8, xmx="10g", timeout=3000)
    ctx.model_check("LinMC", "LinMC_split.cfg", expect_violation="Accepted")
    out = os.path.join(ctx.scratch, "t", "conc")
    summ = ctx.drive_procs("conc", ["-out", out, "-var", "all"], 12)
    if summ["nodes"] < 10:
        raise Infra("driver conc recorded only %d nodes" % summ["nodes"])
    ctx.notes["driver"] = dict(name="conc", nodes=summ["nodes"], distinct_histories=summ["leaves"], extra=summ["extra"])
    nviol = vlib.check_recordings(ctx, "conc", "LinTrace", summ["files"], seq_open + opn, variant_of=lambda f: "tree",
                                  reproducer=vlib.sched_reproducer("conc"))
    vlib.write_evidence(ctx, exhaustive=False)
    return nviol


@handler("C17")
def c17(ctx):
    ctx.prepare = prepare_shims
    prepare_shims(ctx)
    opn, _ = vlib.known_findings(ctx.prop)
    ctx.model_check("MemoizeMC", "MemoizeMC.cfg", workers=12, xmx="10g")
    ctx.model_check("MemoizeMC", "MemoizeMC_kf.cfg", expect_violation="OneInFlight")
    # design level: Memoize on singleflight.Do + Cache, one action per critical section, all interleavings of
    # 3 callers x 2 keys with expiry; without the flight lookup / with an early release two executions overlap
    ctx.model_check("MemoizeImplMC", "MemoizeImplMC%s.cfg" % ("_deep" if ctx.tier == "thorough" else ""), workers=12, xmx="10g", timeout=1800)
    ctx.model_check("MemoizeImplMC", "MemoizeImplMC_noflight.cfg", expect_violation="OneInFlight")
    ctx.model_check("MemoizeImplMC", "MemoizeImplMC_early.cfg", expect_violation="OneInFlight")
    out = os.path.join(ctx.scratch, "t", "memoize")
    summ = ctx.drive_procs("memoize", ["-out", out], 12)
    if summ["nodes"] < 10:
        raise Infra("driver memoize recorded only %d nodes" % summ["nodes"])
    ctx.notes["driver"] = dict(name="memoize", nodes=summ["nodes"], distinct_histories=summ["leaves"], extra=summ["extra"])
    nviol = vlib.check_recordings(ctx, "memoize", "MemoizeTrace", summ["files"], opn, variant_of=lambda f: "tree",
                                  reproducer=vlib.sched_reproducer("memoize"))
    vlib.write_evidence(ctx, exhaustive=False)
    return nviol


def site_table(ctx):
    try:
        return {x["id"]: x for x in vlib.json.load(open(os.path.join(ctx.scratch, "gogu", "zzshim", "sites.json")))}
    except Exception:
        return {}


@handler("C01")
def c01(ctx):
    ctx.prepare = prepare_probes
    prepare_probes(ctx)
    opn, _ = vlib.known_findings(ctx.prop)
    # the checker checked: the vector-clock acceptor is exactly happens-before (declarative definition) on every
    # execution of small lock programs, an accepted execution never has two threads inside conflicting accesses,
    # and the two negative controls fail as they must (measured: 7 s; deep 160 s + 70 s)
    ctx.model_check("HBModel", "HBModel.cfg", workers=12, xmx="10g")
    if ctx.tier == "thorough":
        ctx.model_check("HBModel", "HBModel_deep.cfg", workers=12, xmx="12g", timeout=3000)
        ctx.model_check("HBModel", "HBModel_deep3.cfg", workers=12, xmx="12g", timeout=3000)
    ctx.model_check("HBModel", "HBModel_neg.cfg", expect_violation="Complete")
    ctx.model_check("HBModel", "HBModel_transfer.cfg", expect_violation="Transfer")
    out = os.path.join(ctx.scratch, "t", "race")
    summ = ctx.drive_procs("race", ["-out", out], 12)
    if summ["nodes"] < 10:
        raise Infra("driver race recorded only %d nodes" % summ["nodes"])
    ctx.notes["driver"] = dict(name="race", nodes=summ["nodes"], executions=summ["leaves"], extra=summ["extra"])
    disc = [f for f in summ["files"] if ".disc." in f]
    safe = [f for f in summ["files"] if ".safe." in f]
    sites = site_table(ctx)

    def disc_rep(ctx, f, nodes, target, module, cfg):
        leaf = nodes[vlib.leaf_below(nodes, target) - 1]
        x = leaf["op"].get("x")
        if not x:
            raise Infra("no schedule recorded below line %d of %s" % (target, f))
        for attempt in range(3):
            o = os.path.join(ctx.scratch, "t", "confirm-disc-%d-%d.ndjson" % (target, attempt))
            now = ctx.replay_raw("race", x, o, variant="disc")
            rr = ctx.tlc(module, cfg=cfg, env={"TRACE": o}, workers=1, xmx="1g")
            if rr["rc"] == 12 and rr["mismatches"]:
                n2 = vlib.load_trace(o)
                bad = n2[min(rr["mismatches"]) - 1]["op"]
                what = dict(event=bad)
                if bad["n"] == "acc" and len(bad["a"]) > 3:
                    what["site"] = sites.get(bad["a"][3], {})
                return dict(kind="sched", driver="race", var="disc", module=module, sched=x), what
            if rr["rc"] != 0 or rr["errors"]:
                raise Infra("re-validation failed: " + rr["out"][-1500:])
        return None

    nviol = vlib.check_recordings(ctx, "race", "DiscTrace", disc, opn, variant_of=lambda f: "tree", reproducer=disc_rep)
    nviol += vlib.check_recordings(ctx, "race", "SafeTrace", safe, opn, variant_of=lambda f: "tree",
                                   reproducer=vlib.sched_reproducer("race"))
    vlib.write_evidence(ctx, exhaustive=False)
    return nviol
