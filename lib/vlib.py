"""Orchestration library for ./check (DESIGN.md section 6).

scratch copy of /repo's working tree -> build harness -> run drivers on the real
code -> TLC (model check of the spec; validation of the recordings) -> verdict
-> evidence.  Exit codes: 0 held, 1 VIOLATION (reproduced on the real code),
2 infrastructure problem (never reported as a violation).
"""
import atexit, concurrent.futures as cf, hashlib, json, os, re, shutil, signal
import subprocess, sys, tempfile, time

VERIF = os.path.dirname(os.path.dirname(os.path.abspath(__file__)))
REPO = os.environ.get("VERIF_REPO", "/repo")
EVID = os.environ.get("VERIF_EVIDENCE_DIR", os.path.join(VERIF, "evidence"))   # redirected when a seeded change is being tried
TLA_CP = "/opt/veriftools/tla/tla2tools.jar:/opt/veriftools/tla/CommunityModules-deps.jar"
NCPU = os.cpu_count() or 4
GOENV = dict(GOFLAGS="-mod=mod", GOPROXY="off", GOSUMDB="off", GOTOOLCHAIN="local")


class Infra(Exception):
    """Anything that is not a verdict about the code: exit 2."""


class Crash(Exception):
    """The driver process died while executing the code under test and a breadcrumb path dies again when it
    is re-executed alone: that path is a reproduced failure of the real code."""
    def __init__(self, found):
        Exception.__init__(self, "driver crashed")
        self.found = found     # list of (variant, path, stderr tail)


def log(*a):
    print("[check]", *a, file=sys.stderr, flush=True)


class Ctx:
    def __init__(self, prop, tier, seed):
        self.prop, self.tier, self.seed = prop, tier, seed
        self.t0 = time.time()
        self.scratch = None
        self.states = 0          # TLC distinct states, all runs
        self.transitions = 0     # TLC generated states, all runs
        self.mc_states = 0       # ... of which: exhaustive model checks of the spec
        self.mc_transitions = 0
        self.traces = 0          # recorded executions of the real code validated
        self.trace_nodes = 0     # recorded calls validated
        self.samples = []
        self.kf_hits = {}        # id -> count
        self.kf_printed = set()
        self.notes = {}
        self.violations = 0
        self.assumptions = []
        self.checker_cmds = []
        self.unreproduced = []   # rejected recordings whose re-execution was accepted: never a verdict
        self.prepare = None      # how to build scratch copy + harness (set by shim-based properties)

    # ---------------------------------------------------------------- scratch
    def setup(self, need_harness=True):
        self.scratch = tempfile.mkdtemp(prefix="verif-%s-" % self.prop, dir=os.environ.get("VERIF_TMP", "/tmp"))
        atexit.register(self.cleanup)
        for sig in (signal.SIGTERM, signal.SIGINT, signal.SIGHUP):
            signal.signal(sig, lambda *_: sys.exit(2))
        g = os.path.join(self.scratch, "gogu")
        os.makedirs(g)
        # current working tree: tracked and untracked, not ignored
        try:
            files = subprocess.run(["git", "-C", REPO, "ls-files", "-co", "--exclude-standard"],
                                   capture_output=True, text=True, check=True).stdout.split("\n")
        except Exception as e:
            raise Infra("cannot list %s: %s" % (REPO, e))
        n = 0
        for f in files:
            if not f or not (f.endswith(".go") or f in ("go.mod", "go.sum")):
                continue
            if f.endswith("_test.go"):
                continue
            src = os.path.join(REPO, f)
            if not os.path.isfile(src):
                continue  # deleted in the working tree
            dst = os.path.join(g, f)
            os.makedirs(os.path.dirname(dst), exist_ok=True)
            shutil.copyfile(src, dst)
            n += 1
        if n == 0:
            raise Infra("no sources copied from %s" % REPO)
        # all specs, flat
        sd = os.path.join(self.scratch, "spec")
        os.makedirs(sd)
        for root, _, fs in os.walk(os.path.join(VERIF, "spec")):
            for f in fs:
                if f.endswith(".tla") or f.endswith(".cfg"):
                    shutil.copyfile(os.path.join(root, f), os.path.join(sd, f))
        os.makedirs(os.path.join(self.scratch, "t"))
        if need_harness:
            self.build_harness()

    def build_harness(self, tags=None):
        h = os.path.join(self.scratch, "harness")
        if os.path.exists(h):
            shutil.rmtree(h)
        shutil.copytree(os.path.join(VERIF, "harness"), h)
        shutil.copyfile(os.path.join(self.scratch, "gogu", "go.sum"), os.path.join(h, "go.sum"))
        env = dict(os.environ, **GOENV)
        cmd = ["go", "build", "-o", os.path.join(self.scratch, "drive")]
        if tags:
            cmd += ["-tags", tags]
        cmd += ["./cmd/drive"]
        r = subprocess.run(cmd, cwd=h, env=env, capture_output=True, text=True)
        if r.returncode != 0:
            raise Infra("harness does not build against the working tree:\n" + r.stderr[-3000:])
        self.drive_bin = os.path.join(self.scratch, "drive")

    def apply_shims(self, only="sync,time,golang.org/x/sync/singleflight", probes=None, singleflight=None):
        """DESIGN section 5: copy the shim packages into the scratch copy as zzshim/... and redirect the
        imports of the library (never of /repo itself).  Any failure is an infrastructure error."""
        g = os.path.join(self.scratch, "gogu")
        z = os.path.join(g, "zzshim")
        if os.path.exists(z):
            shutil.rmtree(z)
        shutil.copytree(os.path.join(VERIF, "shim"), z)
        if singleflight:
            # the cached source of x/sync/singleflight becomes a package of the scratch module so that
            # its Mutex/WaitGroup are controllable too (DESIGN section 5)
            os.makedirs(os.path.join(z, "singleflight"))
            src = open(singleflight).read().replace('"sync"', 'sync "github.com/esimov/gogu/zzshim/vsync"')
            with open(os.path.join(z, "singleflight", "singleflight.go"), "w") as f:
                f.write(src)
        env = dict(os.environ, **GOENV)
        tb = os.path.join(self.scratch, "rewrite")
        if not os.path.exists(tb):
            r = subprocess.run(["go", "build", "-o", tb, "./rewrite"], cwd=os.path.join(VERIF, "tools"), env=env,
                               capture_output=True, text=True)
            if r.returncode != 0:
                raise Infra("rewrite tool does not build:\n" + r.stderr[-2000:])
        cmd = [tb, "-dir", g, "-imports", "-only", only]
        if probes:
            cmd += ["-probes", ",".join(probes)]
        r = subprocess.run(cmd, env=env, capture_output=True, text=True)
        if r.returncode != 0:
            raise Infra("rewriting the scratch copy failed:\n" + (r.stderr + r.stdout)[-2000:])
        try:
            info = json.loads(r.stdout.strip().split("\n")[-1])
        except Exception:
            raise Infra("rewrite printed no summary: " + r.stdout[-300:])
        r = subprocess.run(["go", "build", "./..."], cwd=g, env=env, capture_output=True, text=True)
        if r.returncode != 0:
            raise Infra("the rewritten scratch copy does not build:\n" + r.stderr[-2500:])
        self.notes["rewrite"] = info
        return info

    def drive_procs(self, driver, args, shards, timeout=1800):
        """process-level sharding: one driver process per shard (drivers that own process-global state)."""
        def one(i):
            cmd = [self.drive_bin, "-p", driver, "-seed", str(self.seed), "-tier", self.tier,
                   "-shards", str(shards), "-shard", str(i)] + [str(a) for a in args]
            r = subprocess.run(cmd, capture_output=True, text=True, timeout=timeout * (3 if self.tier == "thorough" else 1),
                               env=dict(os.environ, GOMAXPROCS="2"))
            if r.returncode != 0:
                raise Infra("driver %s shard %d failed (rc %d): %s" % (driver, i, r.returncode, r.stderr[-2000:]))
            try:
                return json.loads(r.stdout.strip().split("\n")[-1])
            except Exception:
                raise Infra("driver %s printed no summary: %s" % (driver, r.stdout[-500:]))
        with cf.ThreadPoolExecutor(max_workers=min(shards, NCPU)) as ex:
            parts = list(ex.map(one, range(shards)))
        tot = dict(files=[], nodes=0, leaves=0, panics=0, samples=[], extra={})
        for p in parts:
            tot["files"] += p["files"]
            tot["nodes"] += p["nodes"]
            tot["leaves"] += p["leaves"]
            tot["panics"] += p["panics"]
            tot["samples"] += (p.get("samples") or [])[:1]
            for k, v in (p.get("extra") or {}).items():
                if isinstance(v, (int, float)):
                    tot["extra"][k] = tot["extra"].get(k, 0) + v
                else:
                    tot["extra"][k] = v
        return tot

    def cleanup(self):
        if self.scratch and os.path.isdir(self.scratch) and not os.environ.get("VERIF_KEEP"):
            shutil.rmtree(self.scratch, ignore_errors=True)

    # ----------------------------------------------------------------- driver
    def drive(self, driver, args, timeout=1800):
        cmd = [self.drive_bin, "-p", driver, "-seed", str(self.seed), "-tier", self.tier] + [str(a) for a in args]
        r = subprocess.run(cmd, capture_output=True, text=True, timeout=timeout,
                           env=dict(os.environ, GOMAXPROCS=str(NCPU)))
        if r.returncode != 0:
            self.crash_triage(driver, r.stderr)
            raise Infra("driver %s failed (rc %d): %s" % (driver, r.returncode, r.stderr[-2000:]))
        try:
            return json.loads(r.stdout.strip().split("\n")[-1])
        except Exception:
            raise Infra("driver %s printed no summary: %s" % (driver, r.stdout[-500:]))

    def crash_triage(self, driver, stderr):
        """the driver died (Go `fatal error`, e.g. a stack overflow in a structure that became cyclic): re-execute
        every breadcrumb path alone in a fresh process; the ones that die again are reproduced failures"""
        if "fatal error" not in stderr and "goroutine stack exceeds" not in stderr:
            return
        import glob
        found = []
        for c in sorted(glob.glob(os.path.join(self.scratch, "t", "*.crumb"))):
            txt = open(c).read().strip()
            if not txt:
                continue
            try:
                path = json.loads(txt) if txt.startswith("[") else [json.loads(l) for l in txt.split("\n") if l.strip()]
            except Exception:
                continue
            variant = "lin" if ".lin." in c else ("abc" if ".abc." in c else "tree")
            pf = tempfile.mktemp(prefix="crumb-", suffix=".json", dir=self.scratch)
            with open(pf, "w") as f:
                json.dump(path, f)
            died = 0
            for attempt in range(2):
                try:
                    rr = subprocess.run([self.drive_bin, "-p", driver, "-var", variant, "-replay", "@" + pf],
                                        capture_output=True, text=True, timeout=120)
                except subprocess.TimeoutExpired:
                    break
                if rr.returncode != 0 and ("fatal error" in rr.stderr or "goroutine stack exceeds" in rr.stderr):
                    died += 1
                    tail = [l for l in rr.stderr.split("\n") if "fatal error" in l or "stack exceeds" in l][:2]
            if died == 2:
                found.append((variant, path, "; ".join(tail)))
        if found:
            raise Crash(found)

    def replay_path(self, driver, variant, path, out=None):
        pf = tempfile.mktemp(prefix="path-", suffix=".json", dir=self.scratch)
        with open(pf, "w") as f:
            json.dump(path, f, separators=(",", ":"))
        cmd = [self.drive_bin, "-p", driver, "-var", variant, "-replay", "@" + pf]
        if out:
            cmd += ["-replay-out", out]
        r = subprocess.run(cmd, capture_output=True, text=True, timeout=300)
        if r.returncode != 0:
            raise Infra("replay failed: " + r.stderr[-1000:])
        return json.loads(r.stdout.strip().split("\n")[-1])

    def replay_raw(self, driver, desc, out=None, variant=None):
        pf = tempfile.mktemp(prefix="sched-", suffix=".json", dir=self.scratch)
        with open(pf, "w") as f:
            json.dump(desc, f, separators=(",", ":"))
        cmd = [self.drive_bin, "-p", driver, "-replay", "@" + pf]
        if variant:
            cmd += ["-var", variant]
        if out:
            cmd += ["-replay-out", out]
        r = subprocess.run(cmd, capture_output=True, text=True, timeout=300)
        if r.returncode != 0:
            raise Infra("replay failed: " + r.stderr[-1000:])
        return json.loads(r.stdout.strip().split("\n")[-1])

    # -------------------------------------------------------------------- TLC
    def write_cfg(self, name, body):
        p = os.path.join(self.scratch, "spec", name)
        with open(p, "w") as f:
            f.write(body)
        return name

    def tlc(self, module, cfg=None, env=None, workers=1, xmx="3g", timeout=1500, extra=(), tag=None):
        sd = os.path.join(self.scratch, "spec")
        meta = tempfile.mkdtemp(prefix="meta-", dir=self.scratch)
        cmd = ["java", "-Xmx" + xmx, "-Xss64m", "-XX:+UseParallelGC", "-XX:ParallelGCThreads=2",
               "-cp", TLA_CP, "tlc2.TLC", "-noGenerateSpecTE", "-workers", str(workers), "-metadir", meta]
        if cfg:
            cmd += ["-config", cfg]
        cmd += list(extra) + [module]
        e = dict(os.environ)
        e.pop("JAVA_TOOL_OPTIONS", None)
        if env:
            e.update(env)
        t0 = time.time()
        try:
            r = subprocess.run(cmd, cwd=sd, env=e, capture_output=True, text=True, timeout=timeout)
            out, rc = r.stdout + r.stderr, r.returncode
        except subprocess.TimeoutExpired as ex:
            out = (ex.stdout or b"").decode("utf8", "replace") if isinstance(ex.stdout, bytes) else (ex.stdout or "")
            rc = -9
        shutil.rmtree(meta, ignore_errors=True)
        res = dict(rc=rc, out=out, wall=time.time() - t0, module=module, tag=tag,
                   generated=0, distinct=0, left=0, mismatches=[], kfhits=[], prints=[])
        m = None
        for m in re.finditer(r"(\d+) states generated, (\d+) distinct states found, (\d+) states left on queue", out):
            pass
        if m:
            res.update(generated=int(m.group(1)), distinct=int(m.group(2)), left=int(m.group(3)))
        for m in re.finditer(r'^<<"MISMATCH", (\d+)>>', out, re.M):
            res["mismatches"].append(int(m.group(1)))
        for m in re.finditer(r'^<<"KFHIT", (\d+), \{([^}]*)\}>>', out, re.M):
            ids = [x.strip().strip('"') for x in m.group(2).split(",") if x.strip()]
            res["kfhits"].append((int(m.group(1)), ids))
        res["errors"] = [l for l in out.split("\n") if l.startswith("Error:")]
        res["violated"] = re.findall(r"Invariant (\S+) is violated", out) + re.findall(r"property (\S+) was violated", out)
        self.checker_cmds.append("tlc %s%s" % (module, " -config " + cfg if cfg else ""))
        return res

    def require_ok(self, r, what):
        if r["rc"] != 0 or r["errors"]:
            raise Infra("%s: TLC rc=%s\n%s" % (what, r["rc"], r["out"][-3000:]))

    # ------------------------------------------------- model check of a spec
    def model_check(self, module, cfg, workers=4, xmx="6g", timeout=1500, expect_violation=None, extra=()):
        """Exhaustive TLC run of a spec module (DESIGN 3.2).  A failure here is
        a defect of the oracle, not of the code: exit 2."""
        r = self.tlc(module, cfg=cfg, workers=workers, xmx=xmx, timeout=timeout, extra=extra)
        if expect_violation:
            if expect_violation not in r["violated"]:
                raise Infra("%s/%s: expected %s to be violated (non-vacuity control), TLC said rc=%s\n%s"
                            % (module, cfg, expect_violation, r["rc"], r["out"][-1500:]))
        else:
            self.require_ok(r, "model check %s/%s" % (module, cfg))
            if r["distinct"] < 2:
                raise Infra("model check %s/%s explored %d states (vacuous)" % (module, cfg, r["distinct"]))
        self.states += r["distinct"]
        self.transitions += r["generated"]
        self.mc_states += r["distinct"]
        self.mc_transitions += r["generated"]
        self.notes.setdefault("model_checks", []).append(
            dict(module=module, cfg=cfg, distinct=r["distinct"], generated=r["generated"],
                 wall_s=round(r["wall"], 1), expected_violation=expect_violation))
        return r

    # ------------------------------------------- validation of recordings
    def trace_cfg(self, module, open_kf, extra=""):
        src = open(os.path.join(self.scratch, "spec", module + ".tla")).read()
        body = "SPECIFICATION Spec\nINVARIANT NoMismatch\nCHECK_DEADLOCK FALSE\n"
        deps = src
        for m in re.findall(r"EXTENDS ([^\n]*)", src):
            for d in [x.strip() for x in m.split(",")]:
                p = os.path.join(self.scratch, "spec", d + ".tla")
                if os.path.exists(p):
                    deps += open(p).read()
        if re.search(r"CONSTANTS?\s+[^\n]*\bOpenKF\b", deps):
            body += "CONSTANT OpenKF = {%s}\n" % ", ".join('"%s"' % k for k in sorted(open_kf))
        body += extra
        return self.write_cfg("%s_gen_%d.cfg" % (module, len(open_kf)), body)

    def validate_files(self, files, module, cfg, par=None, xmx="3g"):
        """files: list of (path, variant).  Returns list of tlc results."""
        par = par or max(1, min(12, NCPU - 2))

        def one(fv):
            f, v = fv
            r = self.tlc(module, cfg=cfg, env={"TRACE": f}, workers=1, xmx=xmx, tag=(f, v))
            return r
        with cf.ThreadPoolExecutor(max_workers=par) as ex:
            return list(ex.map(one, files))


def binding_a(ctx, gen_module, cfgs, driver, variant, trace_module):
    """Binding A (DESIGN 4.2): TLC prints every behaviour of the spec to a depth bound; the real object is
    stepped through each and must return what the spec prescribes.  A disagreement is handed to the ordinary
    replay path (binding B decides: re-execute the op path, validate that recording)."""
    nv = ns = 0
    nviol = 0
    for cfg in cfgs:
        r = ctx.tlc(gen_module, cfg=cfg, workers=1, xmx="4g")
        ctx.require_ok(r, "behaviour generation %s/%s" % (gen_module, cfg))
        vf = os.path.join(ctx.scratch, "t", "vectors-%s.jsonl" % cfg.replace(".cfg", ""))
        n = 0
        with open(vf, "w") as f:
            for m in re.finditer(r'^<<"GEN", (".*")>>$', r["out"], re.M):
                f.write(json.loads(m.group(1)) + "\n")
                n += 1
        if n == 0:
            raise Infra("behaviour generation %s/%s printed nothing" % (gen_module, cfg))
        p = subprocess.run([ctx.drive_bin, "-p", driver, "-var", variant, "-vectors", vf], capture_output=True, text=True, timeout=900)
        if p.returncode != 0:
            raise Infra("vector replay failed: " + p.stderr[-800:])
        res = json.loads(p.stdout.strip().split("\n")[-1])
        nv += res["vectors"]
        ns += res["steps"]
        ctx.states += r["distinct"]
        ctx.transitions += r["generated"]
        if res.get("mismatch"):
            mm = res["mismatch"]
            out = os.path.join(ctx.scratch, "t", "vec-confirm.lin.ndjson")
            ctx.replay_path(driver, variant, mm["path"], out=out)
            opn, _ = known_findings(ctx.prop)
            tcfg = ctx.trace_cfg(trace_module, [k["id"] for k in opn])
            rr = ctx.tlc(trace_module, cfg=tcfg, env={"TRACE": out}, workers=1, xmx="1g")
            if rr["rc"] == 12 and rr["mismatches"]:
                rp = write_replay(ctx, driver, variant, trace_module, mm["path"], dict(res=mm["got"], proj={}),
                                  note="found by binding A: the spec prescribes %s" % json.dumps(mm["want"]))
                log("behaviour of the spec not followed by the code: path=%s got=%s want=%s" % (
                    json.dumps(mm["path"], separators=(",", ":"))[:400], json.dumps(mm["got"]), json.dumps(mm["want"])))
                violation(ctx, rp)
                nviol += 1
            else:
                # the recording of that path is accepted by the spec (an open finding's deviation, or a result the
                # generator over-specified): binding B is the judge
                ctx.notes.setdefault("binding_a_disagreements_explained", []).append(mm["path"][-6:])
    ctx.notes["binding_a"] = dict(generator=gen_module, behaviours_replayed=nv, calls_compared=ns)
    return nviol


# -------------------------------------------------------------- trace helpers
def load_trace(path):
    with open(path) as f:
        return [json.loads(l) for l in f if l.strip()]


def path_to(nodes, target):
    """operation path (list of ops) from the root to line `target` (1-based)."""
    parent = {}
    for i, n in enumerate(nodes, 1):
        for k in n["kids"]:
            parent[k] = i
    p, i = [], target
    while i != 1:
        p.append(nodes[i - 1]["op"])
        i = parent[i]
    return list(reversed(p))


def count_leaves(nodes):
    return sum(1 for n in nodes[1:] if not n["kids"])


# ------------------------------------------------------------- known findings
KF_FILE = os.path.join(VERIF, "known_findings.txt")


def known_findings(prop=None):
    """-> (open, fixed): open is a list of dicts(property,id,driver,var,path,module,text,...)"""
    opn, fixed = [], []
    if not os.path.exists(KF_FILE):
        return opn, fixed
    for line in open(KF_FILE):
        line = line.strip()
        if not line or line.startswith("#"):
            continue
        kind, _, rest = line.partition(":")
        rest = rest.strip()
        head, _, text = rest.partition(" :: ")
        d = dict(kind=kind.strip(), text=text.strip(), raw=line)
        for tok in head.split(" "):
            if "=" in tok:
                k, _, v = tok.partition("=")
                d[k] = v
        if "path" in d:
            try:
                d["path"] = json.loads(d["path"])
            except Exception:
                raise Infra("known_findings.txt: bad path in: " + line)
        if prop and d.get("property") != prop:
            continue
        (opn if d["kind"] == "open" else fixed).append(d)
    return opn, fixed


# ------------------------------------------------------------------- verdicts
def write_replay(ctx, driver, variant, module, path, observed, note=""):
    rd = os.path.join(EVID, "replays")
    os.makedirs(rd, exist_ok=True)
    body = dict(property=ctx.prop, kind="oppath", driver=driver, var=variant, module=module, path=path,
                observed=observed, note=note)
    h = hashlib.sha1(json.dumps(body, sort_keys=True).encode()).hexdigest()[:10]
    p = os.path.join(rd, "%s-%s.json" % (ctx.prop, h))
    with open(p, "w") as f:
        json.dump(body, f, indent=1)
    return p


def write_replay_body(ctx, body):
    rd = os.path.join(EVID, "replays")
    os.makedirs(rd, exist_ok=True)
    body = dict(body, property=ctx.prop)
    h = hashlib.sha1(json.dumps(body, sort_keys=True).encode()).hexdigest()[:10]
    p = os.path.join(rd, "%s-%s.json" % (ctx.prop, h))
    with open(p, "w") as f:
        json.dump(body, f, indent=1)
    return p


def leaf_below(nodes, i):
    """some leaf of the subtree rooted at line i (1-based)"""
    while nodes[i - 1]["kids"]:
        i = nodes[i - 1]["kids"][0]
    return i


def sched_reproducer(driver):
    """Reproduction for the scheduler-based drivers: a recorded execution ends in a node whose op.x holds the
    program and the schedule; re-run exactly that schedule on the real code and validate the new recording."""
    def rep(ctx, f, nodes, target, module, cfg):
        leaf = nodes[leaf_below(nodes, target) - 1]
        x = leaf["op"].get("x")
        if not x:
            raise Infra("no schedule recorded below line %d of %s" % (target, f))
        for attempt in range(3):
            out = os.path.join(ctx.scratch, "t", "confirm-%s-%d-%d.ndjson" % (driver, target, attempt))
            now = ctx.replay_raw(driver, x, out)
            rr = ctx.tlc(module, cfg=cfg, env={"TRACE": out}, workers=1, xmx="1g")
            if rr["rc"] == 12 and rr["mismatches"]:
                return dict(kind="sched", driver=driver, module=module, sched=x), now
            if rr["rc"] != 0 or rr["errors"]:
                raise Infra("re-validation failed: " + rr["out"][-1500:])
        return None
    return rep


def violation(ctx, replay):
    ctx.violations += 1
    if replay in ctx.kf_printed:
        return
    ctx.kf_printed.add(replay)
    print("VIOLATION property=%s replay=%s" % (ctx.prop, replay), flush=True)


def known_finding_line(ctx, kf, extra=""):
    if kf["id"] in ctx.kf_printed:
        return
    ctx.kf_printed.add(kf["id"])
    print("KNOWN-FINDING: property=%s %s %s%s" % (ctx.prop, kf["id"], kf["text"], extra), flush=True)


def write_evidence(ctx, level="model_checking", extra_cov=None, exhaustive=None):
    cov = dict(states=max(ctx.states, 0), transitions=max(ctx.transitions, 0),
               traces_validated_against_impl=ctx.traces,
               samples=ctx.samples[:6] if ctx.samples else [],
               recorded_calls_validated=ctx.trace_nodes,
               spec_model_check_states=ctx.mc_states,
               spec_model_check_transitions=ctx.mc_transitions,
               known_findings_hit=ctx.kf_hits,
               checker_cmd="; ".join(sorted(set(ctx.checker_cmds)))[:2000],
               trusted_base=["TLC 1.8.0", "Go toolchain", "the driver's projection through public observers"])
    if exhaustive is not None:
        cov["exhaustive"] = exhaustive
    cov.update(ctx.notes)
    if extra_cov:
        cov.update(extra_cov)
    if not ctx.assumptions:
        try:   # what the level assumes: the manifest's note for this property, plus the common trusted base
            man = json.load(open(os.path.join(VERIF, "MANIFEST.json")))
            ctx.assumptions = [c["level_note"] for c in man["checks"] if c["property_id"] == ctx.prop]
        except Exception:
            pass
        ctx.assumptions.append("bounded scope: what is enumerated is stated under coverage.driver / coverage.model_checks of this file")
    ev = dict(property_id=ctx.prop, tier=ctx.tier, seed=ctx.seed, level=level, coverage=cov,
              assumptions=ctx.assumptions, wall_s=round(time.time() - ctx.t0, 1), violations=ctx.violations)
    os.makedirs(EVID, exist_ok=True)
    with open(os.path.join(EVID, ctx.prop + ".json"), "w") as f:
        json.dump(ev, f, indent=1)
        f.write("\n")


# -------------------------------------------------- generic tree-trace check
def check_recordings(ctx, driver, module, files, open_kf, variant_of=lambda f: "rnd" if ".rnd." in f else "lin" if ".lin." in f else "tree",
                     reproducer=None):
    """Validate recorded trace files against `module` (an XTrace module).
    `reproducer(ctx, file, nodes, target, module, cfg)` -> (replay description, observed) or None re-executes the
    offending execution on the real code (default: the operation path from the root).
    Handles MISMATCH -> replay on the real code -> VIOLATION, KFHIT accounting and
    the node-count self check.  Returns number of violations."""
    cfg = ctx.trace_cfg(module, [k["id"] for k in open_kf])
    kf_by_id = {k["id"]: k for k in open_kf}
    results = ctx.validate_files([(f, variant_of(f)) for f in files], module, cfg)
    nviol = 0
    for r in results:
        f, variant = r["tag"]
        nodes = load_trace(f)
        if r["rc"] == 12 and r["mismatches"]:
            # the shallowest unexplained call
            target = min(r["mismatches"], key=lambda i: (len(path_to(nodes, i)), i))
            path = path_to(nodes, target)
            rec = nodes[target - 1]
            # reproduce: re-execute the path on the real code and validate that recording again
            # (exact equality with the first recording is not required: Go's map iteration and
            # Shuffle are legitimately nondeterministic; what must reproduce is the rejection)
            if reproducer:
                rep = reproducer(ctx, f, nodes, target, module, cfg)
                if rep is None:
                    ctx.unreproduced.append("mismatch at line %d of %s did not reproduce on re-execution (recorded %s)"
                                            % (target, os.path.basename(f), json.dumps(rec)[:500]))
                    ctx.states += r["distinct"]
                    ctx.transitions += r["generated"]
                    continue
                body, observed = rep
                rp = write_replay_body(ctx, body)
                log("unexplained execution at line %d of %s: %s observed=%s" % (
                    target, os.path.basename(f), json.dumps(body, separators=(",", ":"))[:330],
                    json.dumps(observed, separators=(",", ":"))[:260]))
                violation(ctx, rp)
                nviol += 1
                ctx.states += r["distinct"]
                ctx.transitions += r["generated"]
                continue
            confirmed = None
            for attempt in range(12):
                out = os.path.join(ctx.scratch, "t", "confirm-%d-%d.lin.ndjson" % (target, attempt))
                ctx.replay_path(driver, variant, path, out=out)
                rr = ctx.tlc(module, cfg=cfg, env={"TRACE": out}, workers=1, xmx="1g")
                if rr["rc"] == 12 and rr["mismatches"]:
                    n2 = load_trace(out)
                    t2 = min(rr["mismatches"])
                    confirmed = (path_to(n2, t2), n2[t2 - 1])
                    break
                if rr["rc"] != 0 or rr["errors"]:
                    raise Infra("re-validation failed: " + rr["out"][-1500:])
            if not confirmed and variant == "star":
                # a pure helper whose answer depends on what was called before it (state kept between calls):
                # re-execute the calls recorded before it in this process as well, in their order
                hist = [dict((k, v) for k, v in n["op"].items()) for n in nodes[max(1, target - 2001):target - 1]] + [rec["op"]]
                out = os.path.join(ctx.scratch, "t", "confirm-%d-hist.lin.ndjson" % target)
                ctx.replay_path(driver, variant, hist, out=out)
                rr = ctx.tlc(module, cfg=cfg, env={"TRACE": out}, workers=1, xmx="2g")
                if rr["rc"] == 12 and rr["mismatches"]:
                    n2 = load_trace(out)
                    t2 = min(rr["mismatches"])
                    confirmed = (path_to(n2, t2), n2[t2 - 1])
                elif rr["rc"] != 0 or rr["errors"]:
                    raise Infra("re-validation failed: " + rr["out"][-1500:])
            if confirmed:
                cpath, crec = confirmed
                rp = write_replay(ctx, driver, variant, module, cpath, dict(res=crec["res"], proj=crec["proj"]))
                log("unexplained call at line %d of %s: path=%s observed=%s" % (
                    target, os.path.basename(f), json.dumps(cpath, separators=(",", ":"))[:500],
                    json.dumps(dict(res=crec["res"], proj=crec["proj"]), separators=(",", ":"))[:500]))
                violation(ctx, rp)
                nviol += 1
            else:
                # never a verdict (DESIGN 6.1); exit 2 unless another execution is confirmed in this run
                ctx.unreproduced.append("mismatch at line %d of %s did not reproduce on re-execution (recorded %s)"
                                        % (target, os.path.basename(f), json.dumps(rec)[:500]))
            ctx.states += r["distinct"]
            ctx.transitions += r["generated"]
            continue
        ctx.require_ok(r, "trace validation %s on %s" % (module, os.path.basename(f)))
        if r["distinct"] != len(nodes) or r["left"] != 0:
            raise Infra("trace validation %s on %s visited %d states for %d recorded lines"
                        % (module, os.path.basename(f), r["distinct"], len(nodes)))
        ctx.states += r["distinct"]
        ctx.transitions += r["generated"]
        ctx.trace_nodes += len(nodes) - 1
        ctx.traces += count_leaves(nodes)
        if len(ctx.samples) < 3 and len(nodes) > 1:   # a recorded execution, written out
            i = min(len(nodes), 2 + (len(nodes) * 2) // 3)
            pth = path_to(nodes, i)
            ctx.samples.append(dict(path=pth[-8:], res=nodes[i - 1]["res"], proj=nodes[i - 1]["proj"]))
        for line, ids in r["kfhits"]:
            for i in ids:
                ctx.kf_hits[i] = ctx.kf_hits.get(i, 0) + 1
                if i in kf_by_id:
                    known_finding_line(ctx, kf_by_id[i])
                else:
                    raise Infra("spec reported a finding id %s that known_findings.txt does not list as open" % i)
    return nviol


def probe_known_findings(ctx, module, open_kf):
    """Directed probe of every open finding (DESIGN 6.2): execute its minimal
    history on the real code and validate it like any other recording."""
    for k in open_kf:
        if "path" not in k or "driver" not in k:
            continue
        out = os.path.join(ctx.scratch, "t", "probe-%s.lin.ndjson" % k["id"])
        ctx.replay_path(k["driver"], k.get("var", "tree"), k["path"], out=out)
        mod = k.get("module", module)
        cfg = ctx.trace_cfg(mod, [x["id"] for x in open_kf])
        r = ctx.tlc(mod, cfg=cfg, env={"TRACE": out}, workers=1, xmx="1g", tag=(out, k.get("var", "tree")))
        if r["rc"] == 12 and r["mismatches"]:
            nodes = load_trace(out)
            target = min(r["mismatches"])
            path = path_to(nodes, target)
            rec = nodes[target - 1]
            rp = write_replay(ctx, k["driver"], k.get("var", "tree"), mod, path, dict(res=rec["res"], proj=rec["proj"]),
                              note="probe of %s: behaviour differs from both the property and the listed deviation" % k["id"])
            violation(ctx, rp)
            continue
        ctx.require_ok(r, "probe " + k["id"])
        ctx.states += r["distinct"]
        ctx.transitions += r["generated"]
        hit = any(k["id"] in ids for _, ids in r["kfhits"])
        ctx.notes.setdefault("probes", {})[k["id"]] = "deviation observed" if hit else "deviation no longer occurs"
        if hit:
            ctx.kf_hits[k["id"]] = ctx.kf_hits.get(k["id"], 0) + 1
            known_finding_line(ctx, k)


def run_replay_file(ctx, rf):
    """./check <id> --replay file : re-execute against the current tree."""
    body = json.load(open(rf))
    if body.get("kind") not in ("oppath", "sched"):
        raise Infra("unknown replay kind in " + rf)
    if ctx.prepare:
        ctx.prepare(ctx)
    else:
        ctx.setup()
    if body["kind"] == "sched":
        out = os.path.join(ctx.scratch, "t", "replay.ndjson")
        now = ctx.replay_raw(body["driver"], body["sched"], out, variant=body.get("var"))
        opn, _ = known_findings(ctx.prop)
        cfg = ctx.trace_cfg(body["module"], [k["id"] for k in opn])
        r = ctx.tlc(body["module"], cfg=cfg, env={"TRACE": out}, workers=1, xmx="1g")
        print("replayed schedule: %s" % json.dumps(body["sched"], separators=(",", ":")))
        print("observed now : %s" % json.dumps(now, separators=(",", ":"))[:3000])
        if r["rc"] == 12 and r["mismatches"]:
            violation(ctx, rf)
            return 1
        ctx.require_ok(r, "replay")
        print("the replayed execution is a behaviour of the specification on the current tree")
        return 0
    out = os.path.join(ctx.scratch, "t", "replay.lin.ndjson")
    now = ctx.replay_path(body["driver"], body["var"], body["path"], out=out)
    opn, _ = known_findings(ctx.prop)
    cfg = ctx.trace_cfg(body["module"], [k["id"] for k in opn])
    r = ctx.tlc(body["module"], cfg=cfg, env={"TRACE": out}, workers=1, xmx="1g")
    print("replayed path: %s" % json.dumps(body["path"], separators=(",", ":")))
    print("recorded then: %s" % json.dumps(body["observed"], separators=(",", ":")))
    print("observed now : %s" % json.dumps(now, separators=(",", ":")))
    if r["rc"] == 12 and r["mismatches"]:
        violation(ctx, rf)
        return 1
    ctx.require_ok(r, "replay")
    print("the replayed execution is a behaviour of the specification on the current tree")
    return 0
