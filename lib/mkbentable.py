#!/usr/bin/env python3
"""Regenerates section 14 of DESIGN.md (between the markers) from benign/*/meta.json."""
import glob, json, os, re
V = os.path.dirname(os.path.dirname(os.path.abspath(__file__)))
rows = []
for f in sorted(glob.glob(os.path.join(V, "benign", "*", "meta.json"))):
    m = json.load(open(f))
    name = os.path.basename(os.path.dirname(f))
    cr = m.get("check_result", {})
    by = ", ".join("%s exit %s" % (c, r.get("rc")) for c, r in cr.items())
    rows.append("| %s | %s | %s | %s | %s |" % (
        name, m.get("property"), (m.get("summary") or "").replace("|", "/")[:300],
        (m.get("unspecified_behaviour_changed") or "").replace("|", "/")[:220],
        ("silent: " + by) if m.get("silent") else ("ALARM: " + by)))
body = ["<!-- bentable:begin -->",
        "| change | property | what was changed | what differs observably or internally | quick checks |",
        "|---|---|---|---|---|"] + rows + ["<!-- bentable:end -->"]
p = os.path.join(V, "DESIGN.md")
s = open(p).read()
if "<!-- bentable:begin -->" in s:
    s = re.sub(r"<!-- bentable:begin -->.*<!-- bentable:end -->", lambda _: "\n".join(body), s, flags=re.S)
    open(p, "w").write(s)
print(len(rows), "rows;", sum(1 for r in rows if "ALARM" in r), "alarms")
