package vsync

import (
	"bytes"
	"fmt"
	"os"
	"runtime"
	"strconv"
	"sync"
	"sync/atomic"
	"time"
	"unsafe"
)

// Controlled scheduler (DESIGN.md section 5). The driver describes a program
// as a list of thread bodies; Run executes it once under a Chooser that
// decides, at every scheduling point, which enabled thread moves next.
// Explore enumerates the choice tree by stateless re-execution.

type tstate int

const (
	tsNew      tstate = iota
	tsPoint           // at a plain scheduling point (always enabled)
	tsPreLock         // about to attempt a lock acquisition (always enabled)
	tsWaitLock        // attempted, not grantable: announced (writers) and waiting
	tsCond            // parked in Cond.Wait, not yet woken
	tsCondWoke        // woken, must re-acquire L
	tsWG              // parked in WaitGroup.Wait
	tsExt             // blocked outside the scheduler's control (channel operation)
	tsDone
)

// Thread is one model thread; goroutines the library spawns while a thread
// runs are attributed to it.
type Thread struct {
	ID     int
	st     tstate
	resume chan struct{}
	m      *RWMutex
	write  bool
	cond   *Cond
	wg     *WaitGroup
	Panic  any
	held   map[*RWMutex]int // +1 per read holding, +1000 per write holding
	label  string
	ext    bool // blocked in an operation the scheduler does not control (a channel); owned by the Run loop
}

// Event is one entry of the scheduler's log (lock protocol + marks).
type Event struct {
	K    string `json:"k"` // acq rel cwait cwake mark acc
	T    int    `json:"t"`
	M    int64  `json:"m"`
	W    bool   `json:"w"`
	Site int    `json:"site,omitempty"`
	Cell int64  `json:"cell,omitempty"`
	Note string `json:"note,omitempty"`
}

type Sched struct {
	mu                sync.Mutex
	threads           []*Thread
	byGoid            map[int64]*Thread
	cur               *Thread
	yielded           chan *Thread
	Step              int   // logical clock: incremented at every mark
	Choices           []int // thread ids chosen, in order
	NEnabled          []int // number of enabled threads at each choice
	Log               []Event
	LogOn             bool
	Deadlock          bool // some thread waits for a lock nobody will release
	Quiesced          bool // threads remain parked in Cond/WaitGroup waits only
	Stuck             bool // a thread did not come back within the watchdog (uncontrolled blocking)
	Watchdog          time.Duration
	YieldOnBareAccess bool
	TrackAccess       bool
	keep              []unsafe.Pointer // logged objects stay reachable: an address is never reused within a run
	cellID            map[uintptr]int64
	aborting          atomic.Bool
}

// Probes switches the access probes on for the runs that follow: bare accesses become scheduling
// points, and with logging on every access is recorded.
var Probes bool

var cur atomic.Pointer[Sched]

func active() *Sched { return cur.Load() }

// Active reports whether a controlled scheduler is installed.
func Active() bool { return cur.Load() != nil }

func goid() int64 {
	var buf [64]byte
	n := runtime.Stack(buf[:], false)
	b := buf[:n]
	b = b[len("goroutine "):]
	i := bytes.IndexByte(b, ' ')
	v, _ := strconv.ParseInt(string(b[:i]), 10, 64)
	return v
}

func (s *Sched) me() *Thread {
	g := goid()
	s.mu.Lock()
	defer s.mu.Unlock()
	if t, ok := s.byGoid[g]; ok {
		return t
	}
	// a goroutine the library started while s.cur was running
	t := s.cur
	s.byGoid[g] = t
	return t
}

func (s *Sched) log(e Event) {
	if s.LogOn {
		s.mu.Lock()
		s.Log = append(s.Log, e)
		s.mu.Unlock()
	}
}

// yield parks the calling goroutine of thread t until the scheduler resumes t.
func (s *Sched) yield(t *Thread) {
	ch := make(chan struct{})
	s.mu.Lock()
	t.resume = ch
	s.mu.Unlock()
	s.yielded <- t
	<-ch
	if s.aborting.Load() {
		// the run is over and this thread never finished (parked in a wait nobody will end, or
		// deadlocked): unwind it so that its goroutine does not outlive the run
		runtime.Goexit()
	}
}

func grantable(m *RWMutex, t *Thread, write bool) bool {
	if write {
		return m.w == nil && len(m.readers) == 0
	}
	if m.w != nil {
		return false
	}
	for w := range m.waitingW {
		if w != t {
			return false // Go's RWMutex: a waiting writer blocks new readers
		}
	}
	return true
}

func (s *Sched) grant(m *RWMutex, t *Thread, write bool) {
	if write {
		m.w = t
		delete(m.waitingW, t)
		t.held[m] += 1000
	} else {
		if m.readers == nil {
			m.readers = map[*Thread]int{}
		}
		m.readers[t]++
		t.held[m]++
	}
	s.log(Event{K: "acq", T: t.ID, M: m.ident(), W: write})
}

func (s *Sched) acquire(m *RWMutex, write bool) {
	if s.aborting.Load() {
		return
	}
	t := s.me()
	t.st, t.m, t.write = tsPreLock, m, write
	s.yield(t)
	for !grantable(m, t, write) {
		if write {
			if m.waitingW == nil {
				m.waitingW = map[*Thread]bool{}
			}
			m.waitingW[t] = true
		}
		t.st = tsWaitLock
		s.yield(t)
	}
	s.grant(m, t, write)
	if m.tryPending > 0 {
		// somebody is about to TryLock this mutex: stop right after acquiring it, so that "the holder was
		// inside its critical section when the attempt was made" is one of the schedules
		t.st = tsPoint
		s.yield(t)
	}
}

// try: a TryLock / TryRLock.  The attempt is a scheduling point of its own, and while it is pending every
// thread that acquires the mutex stops right behind the acquisition (see acquire) - otherwise a critical
// section would be atomic for the scheduler and the attempt could never fail because of a holder.
func (s *Sched) try(m *RWMutex, write bool) bool {
	t := s.me()
	if !s.aborting.Load() {
		m.tryPending++
		t.st = tsPoint
		s.yield(t)
		m.tryPending--
	}
	if !grantable(m, t, write) {
		return false
	}
	s.grant(m, t, write)
	return true
}

func (s *Sched) release(m *RWMutex, write bool) {
	if s.aborting.Load() {
		return
	}
	t := s.me()
	if write {
		if m.w == nil {
			panic("sync: unlock of unlocked mutex")
		}
		// Go allows unlocking from another goroutine; the lock table follows the holder
		h := m.w
		m.w = nil
		h.held[m] -= 1000
		if h.held[m] <= 0 {
			delete(h.held, m)
		}
	} else {
		h := t
		if m.readers[h] == 0 {
			for r := range m.readers {
				h = r
				break
			}
		}
		if m.readers[h] == 0 {
			panic("sync: RUnlock of unlocked RWMutex")
		}
		m.readers[h]--
		if m.readers[h] == 0 {
			delete(m.readers, h)
		}
		h.held[m]--
		if h.held[m] <= 0 {
			delete(h.held, m)
		}
	}
	s.log(Event{K: "rel", T: t.ID, M: m.ident(), W: write})
}

func lockerOf(l Locker) (*RWMutex, bool) {
	switch x := l.(type) {
	case *Mutex:
		return &x.rw, true
	case *RWMutex:
		return x, true
	case *rlocker:
		return (*RWMutex)(x), false
	}
	panic(fmt.Sprintf("vsync: Cond with foreign Locker %T", l))
}

func (s *Sched) condWait(c *Cond) {
	t := s.me()
	m, write := lockerOf(c.L)
	s.release(m, write)
	c.waiters = append(c.waiters, t)
	t.st, t.cond = tsCond, c
	s.log(Event{K: "cwait", T: t.ID, M: m.ident()})
	s.yield(t) // resumed only in state tsCondWoke and when L is grantable
	s.grant(m, t, write)
}

func (s *Sched) condWake(c *Cond, all bool) {
	t := s.me()
	n := len(c.waiters)
	if !all && n > 1 {
		n = 1
	}
	for _, w := range c.waiters[:n] {
		w.st = tsCondWoke
		m, wr := lockerOf(c.L)
		w.m, w.write = m, wr
	}
	c.waiters = c.waiters[n:]
	tid := 0
	if t != nil {
		tid = t.ID
	}
	s.log(Event{K: "cwake", T: tid, Note: strconv.Itoa(n)})
}

func (s *Sched) wgAdd(w *WaitGroup, d int) {
	w.n += d
	if w.n < 0 {
		panic("sync: negative WaitGroup counter")
	}
}

func (s *Sched) wgWait(w *WaitGroup) {
	t := s.me()
	for w.n > 0 {
		t.st, t.wg = tsWG, w
		s.yield(t)
	}
}

// Tracking reports whether access probes should report (a controlled run that wants them).
func Tracking() bool {
	s := active()
	return s != nil && s.TrackAccess && !s.aborting.Load()
}

// Access is called by the probes in package vacc: the calling thread touches the cells at
// base+offs[i]. An access made while the thread holds no lock at all is a scheduling point
// first (otherwise the enumeration of interleavings would silently depend on what C01 is
// there to establish), then it is logged with the locks held.
func Access(base unsafe.Pointer, offs []uintptr, write bool, site int) {
	s := active()
	if s == nil || !s.TrackAccess {
		return
	}
	t := s.me()
	if t == nil || t.st == tsDone {
		return
	}
	if len(t.held) == 0 && s.YieldOnBareAccess {
		t.st = tsPoint
		s.yield(t)
	}
	if !s.LogOn {
		return
	}
	s.mu.Lock()
	s.keep = append(s.keep, base)
	for _, o := range offs {
		a := uintptr(base) + o
		id, ok := s.cellID[a]
		if !ok {
			id = int64(len(s.cellID) + 1)
			s.cellID[a] = id
		}
		s.Log = append(s.Log, Event{K: "acc", T: t.ID, W: write, Site: site, Cell: id})
	}
	s.mu.Unlock()
}

// NoteHand records that the memory at base+offs[i] has just been handed to the caller by the
// container (a returned slice's elements, a returned map, a returned item): event "hand".
func NoteHand(base unsafe.Pointer, offs []uintptr) {
	s := active()
	if s == nil || !s.LogOn || base == nil {
		return
	}
	t := s.me()
	s.mu.Lock()
	defer s.mu.Unlock()
	s.keep = append(s.keep, base)
	for _, o := range offs {
		a := uintptr(base) + o
		id, ok := s.cellID[a]
		if !ok {
			id = int64(len(s.cellID) + 1)
			s.cellID[a] = id
		}
		s.Log = append(s.Log, Event{K: "hand", T: t.ID, Cell: id})
	}
}

// BarePoint is a scheduling point only for a thread that holds no lock at all.
func BarePoint() {
	s := active()
	if s == nil || !s.YieldOnBareAccess {
		return
	}
	t := s.me()
	if t == nil || t.st == tsDone || len(t.held) > 0 {
		return
	}
	t.st = tsPoint
	s.yield(t)
}

// Point is a plain scheduling point (call boundaries, bare accesses).
func Point() {
	s := active()
	if s == nil {
		return
	}
	t := s.me()
	if t == nil {
		return
	}
	t.st = tsPoint
	s.yield(t)
}

// Mark advances the logical clock and returns the new value; the driver
// stamps call invocations and returns with it.
func Mark() int {
	s := active()
	if s == nil {
		return 0
	}
	s.mu.Lock()
	defer s.mu.Unlock()
	s.Step++
	return s.Step
}

// Holding returns the (lock id, write) pairs the calling thread holds.
func Holding() (ids []int64, writes []bool, tid int) {
	s := active()
	if s == nil {
		return nil, nil, 0
	}
	t := s.me()
	if t == nil {
		return nil, nil, 0
	}
	for m, n := range t.held {
		ids = append(ids, m.ident())
		writes = append(writes, n >= 1000)
	}
	return ids, writes, t.ID
}

// CurrentThread returns the id of the calling model thread (0 if none).
func CurrentThread() int {
	s := active()
	if s == nil {
		return 0
	}
	if t := s.me(); t != nil {
		return t.ID
	}
	return 0
}

func (s *Sched) enabled(t *Thread) bool {
	if t.ext {
		return false
	}
	switch t.st {
	case tsNew, tsPoint, tsPreLock:
		return true
	case tsWaitLock, tsCondWoke:
		return grantable(t.m, t, t.write)
	case tsWG:
		return t.wg.n == 0
	}
	return false
}

// Chooser picks the index (into the list of enabled threads, ordered by id)
// of the thread to run next. cur is the index of the thread that ran last if
// it is still enabled, else -1.
type Chooser func(step int, enabled []int, cur int) int

// Result of one execution.
type Result struct {
	Choices  []int
	NEnabled []int
	Deadlock bool
	Quiesced bool
	Stuck    bool
	Panics   map[int]any
	Log      []Event
	Steps    int
	Blocked  []int // threads that never finished
}

// Run executes the thread bodies once under choose. Thread ids are 1-based.
func Run(bodies []func(), choose Chooser, logOn bool) *Result {
	s := &Sched{byGoid: map[int64]*Thread{}, yielded: make(chan *Thread), LogOn: logOn, Watchdog: 20 * time.Second,
		TrackAccess: Probes, YieldOnBareAccess: Probes, cellID: map[uintptr]int64{}}
	for i, b := range bodies {
		t := &Thread{ID: i + 1, st: tsNew, held: map[*RWMutex]int{}}
		s.threads = append(s.threads, t)
		body := b
		start := make(chan struct{})
		t.resume = start
		go func() {
			g := goid()
			s.mu.Lock()
			s.byGoid[g] = t
			s.mu.Unlock()
			<-start
			defer func() {
				if e := recover(); e != nil {
					t.Panic = e
				}
				if s.aborting.Load() && t.ext {
					return // the run is over: a thread that was blocked in a channel and got released afterwards
				}
				t.st = tsDone
				s.yielded <- t
			}()
			body()
		}()
	}
	if !cur.CompareAndSwap(nil, s) {
		panic("vsync: a scheduler is already active")
	}
	defer cur.Store(nil)
	res := &Result{Panics: map[int]any{}}
	last := -1
	wd := time.NewTimer(time.Hour)
	defer wd.Stop()
	for {
		var en []int
		for i, t := range s.threads {
			if t.st != tsDone && s.enabled(t) {
				en = append(en, i)
			}
		}
		if len(en) == 0 {
			break
		}
		ci := -1
		for j, i := range en {
			if i == last {
				ci = j
			}
		}
		ids := make([]int, len(en))
		for j, i := range en {
			ids[j] = s.threads[i].ID
		}
		k := 0
		if len(en) > 1 {
			k = choose(len(s.Choices), ids, ci)
			if k < 0 || k >= len(en) {
				k = 0
			}
			s.Choices = append(s.Choices, k)
			s.NEnabled = append(s.NEnabled, len(en))
		}
		t := s.threads[en[k]]
		last = en[k]
		s.mu.Lock()
		s.cur = t
		ch := t.resume
		s.mu.Unlock()
		close(ch)
		if !s.waitYield(t) {
			res.Stuck = true
			break
		}
		s.syncExt()
	}
	for _, t := range s.threads {
		if t.st != tsDone {
			res.Blocked = append(res.Blocked, t.ID)
			if t.st == tsWaitLock || t.st == tsPreLock || t.st == tsCondWoke {
				res.Deadlock = true
			} else {
				res.Quiesced = true
			}
		}
		if t.Panic != nil {
			res.Panics[t.ID] = t.Panic
		}
	}
	res.Choices, res.NEnabled, res.Log, res.Steps = s.Choices, s.NEnabled, s.Log, s.Step
	// unwind what is still parked
	s.aborting.Store(true)
	for _, t := range s.threads {
		if t.st == tsDone || t.ext {
			continue // (a thread blocked in a channel operation cannot be unwound from here)
		}
		s.mu.Lock()
		s.cur = t
		ch := t.resume
		s.mu.Unlock()
		func() {
			defer func() { recover() }() // already closed: the thread is stuck outside our control
			close(ch)
		}()
		wd.Reset(100 * time.Millisecond)
		select {
		case <-s.yielded:
		case <-wd.C:
		}
	}
	return res
}

// waitYield waits for the thread that was just resumed to reach its next scheduling point.  A thread
// that blocks in an operation the scheduler does not control - a channel receive, a select - never
// gets there: when nothing has arrived for a while and EVERY other goroutine of the process is blocked
// (two snapshots in a row), the thread is marked externally blocked and the scheduler moves on; what
// another thread does later (closing the channel) lets it run again, and it re-joins at its next
// scheduling point (syncExt).  Programs that never block outside vsync never take the slow path.
func (s *Sched) waitYield(t *Thread) bool {
	poll := 500 * time.Microsecond
	if ExtMarks.Load() > 0 {
		poll = 20 * time.Microsecond // code that blocks in channels: it will happen again, look early
	}
	deadline := time.Now().Add(s.Watchdog)
	quiet := 0
	for {
		wait := poll
		if quiet > 0 {
			wait = time.Microsecond // the confirming snapshot follows at once
		}
		tm := time.NewTimer(wait)
		select {
		case y := <-s.yielded:
			tm.Stop()
			if y == t {
				return true
			}
			y.ext = false // an externally blocked thread came back and parked itself
			continue
		case <-tm.C:
		}
		if time.Now().After(deadline) {
			return false
		}
		if othersBlocked() {
			quiet++
		} else {
			quiet = 0
		}
		// "blocked" includes a thread that is just handing itself over on s.yielded: take it now (whoever
		// was blocked at the snapshot cannot start sending afterwards)
		got := false
		for more := true; more; {
			select {
			case y := <-s.yielded:
				if y == t {
					got = true
				} else {
					y.ext = false
				}
				quiet = 0
			default:
				more = false
			}
		}
		if got {
			return true
		}
		if quiet >= 2 {
			t.ext, t.st = true, tsExt
			ExtMarks.Add(1)
			if f := os.Getenv("VSYNC_EXT_LOG"); f != "" {
				buf := make([]byte, 1<<18)
				n := runtime.Stack(buf, true)
				if fh, err := os.OpenFile(f, os.O_APPEND|os.O_CREATE|os.O_WRONLY, 0o644); err == nil {
					fmt.Fprintf(fh, "=== thread %d marked externally blocked\n%s\n", t.ID, buf[:n])
					fh.Close()
				}
			}
			return true
		}
		if poll < 10*time.Millisecond {
			poll *= 2
		}
	}
}

// ExtMarks counts the threads found blocked outside the scheduler's control.
var ExtMarks atomic.Int64

// syncExt runs after every step while some thread is externally blocked: the step may have released it.
// It waits until every such thread is blocked again or has parked itself at a scheduling point.
func (s *Sched) syncExt() {
	some := false
	for _, t := range s.threads {
		if t.ext {
			some = true
		}
	}
	if !some {
		return
	}
	deadline := time.Now().Add(s.Watchdog)
	quiet := 0
	for quiet < 2 && time.Now().Before(deadline) {
		select {
		case y := <-s.yielded:
			y.ext = false
			quiet = 0
			continue
		default:
		}
		if othersBlocked() {
			quiet++
		} else {
			quiet = 0
			runtime.Gosched()
		}
		select { // see waitYield: a thread blocked in its hand-over is not blocked
		case y := <-s.yielded:
			y.ext = false
			quiet = 0
		default:
		}
	}
}

// blockedStates are the goroutine states (as printed in a stack dump) in which a goroutine cannot move
// before somebody else does something; every other state - running, runnable, syscall, preempted,
// the garbage collector's assist states - counts as active.
var blockedStates = map[string]bool{
	"chan receive": true, "chan send": true, "select": true, "select (no cases)": true,
	"chan receive (nil chan)": true, "chan send (nil chan)": true,
	"semacquire": true, "sync.Mutex.Lock": true, "sync.RWMutex.RLock": true, "sync.RWMutex.Lock": true,
	"sync.Cond.Wait": true, "sync.WaitGroup.Wait": true, "sleep": true, "IO wait": true,
	"finalizer wait": true, "GC worker (idle)": true, "force gc (idle)": true, "GC sweep wait": true,
	"GC scavenge wait": true, "timer goroutine (idle)": true, "cleanup wait": true,
}

// othersBlocked reports whether every goroutine of the process other than the caller is blocked
// (see blockedStates) in an all-goroutine stack dump.
func othersBlocked() bool {
	buf := make([]byte, 1<<16)
	for {
		n := runtime.Stack(buf, true)
		if n < len(buf) {
			buf = buf[:n]
			break
		}
		buf = make([]byte, 2*len(buf))
	}
	for i, r := range bytes.Split(buf, []byte("\n\n")) {
		if i == 0 || !bytes.HasPrefix(r, []byte("goroutine ")) {
			continue
		}
		a, b := bytes.IndexByte(r, '['), bytes.IndexByte(r, ']')
		if a < 0 || b < a {
			continue
		}
		st := r[a+1 : b]
		if c := bytes.IndexByte(st, ','); c >= 0 {
			st = st[:c]
		}
		if !blockedStates[string(st)] {
			return false
		}
	}
	return true
}

// Explore enumerates schedules depth first by stateless re-execution. mk must
// build a fresh program (fresh objects) every time. visit returns false to
// stop. pb < 0: no preemption bound; otherwise at most pb preemptions
// (switching away from a thread that could have continued; switches at
// blocking points are free). max bounds the number of executions (0 =
// unbounded). Returns the number of executions and whether the tree was
// exhausted.
func Explore(mk func() []func(), pb int, max int, logOn bool, visit func(*Result) bool) (int, bool) {
	return exploreWith(pb, max, logOn, func(run func([]func()) *Result) bool { return visit(run(mk())) })
}

// ExploreWith is Explore with the roles reversed: body is called once per
// schedule with a run function that executes the thread bodies it is given
// under the schedule of this iteration; body returns false to stop.
func ExploreWith(pb int, max int, body func(run func([]func()) *Result) bool) (int, bool) {
	return exploreWith(pb, max, false, body)
}

// ExploreWithLog is ExploreWith with the event log switched on.
func ExploreWithLog(pb int, max int, body func(run func([]func()) *Result) bool) (int, bool) {
	return exploreWith(pb, max, true, body)
}

func exploreWith(pb int, max int, logOn bool, body func(run func([]func()) *Result) bool) (int, bool) {
	// one frame per real choice: the alternatives in the order they are tried (the default - let the
	// running thread continue, else the lowest id - first), the position reached, preemptions before it
	type frame struct {
		order []int
		pos   int
		cur   int
		pre   int
	}
	var stack []frame
	runs := 0
	for {
		prefix := stack
		var frames []frame
		pre := 0
		ran := false
		cont := body(func(bodies []func()) *Result {
			if ran {
				panic("vsync: run called twice in one iteration")
			}
			ran = true
			return Run(bodies, func(step int, en []int, ci int) int {
				var f frame
				if step < len(prefix) {
					f = prefix[step]
					if len(f.order) != len(en) {
						// the program is not deterministic under the scheduler: give up on this branch
						f = frame{}
					}
				}
				if f.order == nil {
					def := 0
					if ci >= 0 {
						def = ci
					}
					f.order = []int{def}
					for c := 0; c < len(en); c++ {
						if c != def {
							f.order = append(f.order, c)
						}
					}
					f.pos, f.cur = 0, ci
				}
				f.pre = pre
				k := f.order[f.pos]
				if ci >= 0 && k != ci {
					pre++
				}
				frames = append(frames, f)
				return k
			}, logOn)
		})
		runs++
		if !cont {
			return runs, false
		}
		if max > 0 && runs >= max {
			return runs, false
		}
		stack = frames
		for len(stack) > 0 {
			f := &stack[len(stack)-1]
			adv := false
			for f.pos+1 < len(f.order) {
				f.pos++
				cost := 0
				if f.cur >= 0 && f.order[f.pos] != f.cur {
					cost = 1
				}
				if pb >= 0 && f.pre+cost > pb {
					continue
				}
				adv = true
				break
			}
			if adv {
				break
			}
			stack = stack[:len(stack)-1]
		}
		if len(stack) == 0 {
			return runs, true
		}
	}
}
