// Package vsync is a drop-in replacement for the parts of package sync that
// esimov/gogu (and x/sync/singleflight) use (DESIGN.md section 5,
// transformation 1). The rewriter redirects `import "sync"` of the scratch
// copy to this package; /repo itself is never touched.
//
// Free mode (no scheduler installed): every type wraps the real primitive,
// optionally reporting lock events to a tracer. Controlled mode (a Sched is
// active): lock state is plain data owned by the scheduler, exactly one
// model thread runs at a time, and a thread hands the baton back before
// every lock acquisition, at Cond.Wait, at WaitGroup.Wait and wherever the
// driver or an access probe asks for it, so that the driver can enumerate
// interleavings of critical sections deterministically.
package vsync

import (
	"sync"
	"sync/atomic"
)

type (
	Locker = sync.Locker
	Once   = sync.Once
	Pool   = sync.Pool
	Map    = sync.Map
)

// lock identity for events and the scheduler's lock table
var nextID atomic.Int64

func newID() int64 { return nextID.Add(1) }

// ---------------------------------------------------------------- RWMutex

type RWMutex struct {
	real sync.RWMutex
	id   atomic.Int64
	// controlled-mode state (owned by the scheduler)
	w        *Thread
	readers  map[*Thread]int
	waitingW map[*Thread]bool
	// number of threads parked just before a TryLock/TryRLock of this mutex
	tryPending int
}

func (m *RWMutex) ident() int64 {
	if v := m.id.Load(); v != 0 {
		return v
	}
	m.id.CompareAndSwap(0, newID())
	return m.id.Load()
}

func (m *RWMutex) Lock() {
	if s := active(); s != nil {
		s.acquire(m, true)
		return
	}
	m.real.Lock()
	traceEv("acq", m.ident(), true)
}

func (m *RWMutex) Unlock() {
	if s := active(); s != nil {
		s.release(m, true)
		return
	}
	traceEv("rel", m.ident(), true)
	m.real.Unlock()
}

func (m *RWMutex) RLock() {
	if s := active(); s != nil {
		s.acquire(m, false)
		return
	}
	m.real.RLock()
	traceEv("acq", m.ident(), false)
}

func (m *RWMutex) RUnlock() {
	if s := active(); s != nil {
		s.release(m, false)
		return
	}
	traceEv("rel", m.ident(), false)
	m.real.RUnlock()
}

func (m *RWMutex) TryLock() bool {
	if s := active(); s != nil {
		return s.try(m, true)
	}
	return m.real.TryLock()
}

func (m *RWMutex) TryRLock() bool {
	if s := active(); s != nil {
		return s.try(m, false)
	}
	return m.real.TryRLock()
}

type rlocker RWMutex

func (r *rlocker) Lock()   { (*RWMutex)(r).RLock() }
func (r *rlocker) Unlock() { (*RWMutex)(r).RUnlock() }

func (m *RWMutex) RLocker() Locker { return (*rlocker)(m) }

// ------------------------------------------------------------------ Mutex

// Mutex is an RWMutex that is only ever write-locked.
type Mutex struct{ rw RWMutex }

func (m *Mutex) Lock()         { m.rw.Lock() }
func (m *Mutex) Unlock()       { m.rw.Unlock() }
func (m *Mutex) TryLock() bool { return m.rw.TryLock() }

// ------------------------------------------------------------------- Cond

type Cond struct {
	L    Locker
	mu   sync.Mutex
	real *sync.Cond
	// controlled mode
	waiters []*Thread
}

func NewCond(l Locker) *Cond { return &Cond{L: l} }

func (c *Cond) r() *sync.Cond {
	c.mu.Lock()
	defer c.mu.Unlock()
	if c.real == nil {
		c.real = sync.NewCond(c.L)
	}
	return c.real
}

func (c *Cond) Wait() {
	if s := active(); s != nil {
		s.condWait(c)
		return
	}
	c.r().Wait()
}

func (c *Cond) Broadcast() {
	if s := active(); s != nil {
		s.condWake(c, true)
		return
	}
	c.r().Broadcast()
}

func (c *Cond) Signal() {
	if s := active(); s != nil {
		s.condWake(c, false)
		return
	}
	c.r().Signal()
}

// -------------------------------------------------------------- WaitGroup

type WaitGroup struct {
	real sync.WaitGroup
	n    int // controlled mode
}

func (w *WaitGroup) Add(d int) {
	if s := active(); s != nil {
		s.wgAdd(w, d)
		return
	}
	w.real.Add(d)
}

func (w *WaitGroup) Done() { w.Add(-1) }

func (w *WaitGroup) Wait() {
	if s := active(); s != nil {
		s.wgWait(w)
		return
	}
	w.real.Wait()
}

// ----------------------------------------------------------- free tracing

// Tracer, when set, receives lock events in free mode: kind is "acq" (taken
// after the lock is held) or "rel" (taken before it is released).
var tracer atomic.Pointer[func(kind string, lock int64, write bool)]

func SetTracer(f func(kind string, lock int64, write bool)) {
	if f == nil {
		tracer.Store(nil)
		return
	}
	tracer.Store(&f)
}

func traceEv(kind string, lock int64, write bool) {
	if f := tracer.Load(); f != nil {
		(*f)(kind, lock, write)
	}
}
