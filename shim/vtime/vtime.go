// Package vtime is a drop-in replacement for the parts of package time that
// esimov/gogu uses (DESIGN.md section 5, transformation 2). The rewriter
// redirects `import "time"` of the scratch copy to this package.
//
// Duration, Time and the constants are aliases of the real ones, so public
// signatures stay compatible. Clock reads and timers either pass through to
// the real package (Virtual() == false, the default) or run on a virtual
// clock owned by the verification driver: time only moves when the driver
// calls Advance, timers fire in deadline order inside Advance, and a ticker
// tick is handed to its reader with a completion barrier, so that "every
// placement of an observation relative to a deadline" is an enumeration
// instead of a sleep.
package vtime

import (
	"bytes"
	"os"
	"runtime"
	"sort"
	"sync"
	"sync/atomic"
	"time"
)

type (
	Duration = time.Duration
	Time     = time.Time
	Month    = time.Month
	Weekday  = time.Weekday
	Location = time.Location
)

const (
	Nanosecond  = time.Nanosecond
	Microsecond = time.Microsecond
	Millisecond = time.Millisecond
	Second      = time.Second
	Minute      = time.Minute
	Hour        = time.Hour
)

var (
	UTC   = time.UTC
	Local = time.Local
)

func Unix(sec, nsec int64) Time                { return time.Unix(sec, nsec) }
func UnixMilli(ms int64) Time                  { return time.UnixMilli(ms) }
func ParseDuration(s string) (Duration, error) { return time.ParseDuration(s) }

// ---------------------------------------------------------------- the clock

type event struct {
	at     time.Time
	seq    int
	fn     func()         // AfterFunc
	ch     chan time.Time // NewTimer / After (buffered 1) or ticker (unbuffered)
	period time.Duration  // > 0: ticker
	dead   bool
}

var (
	mu       sync.Mutex
	virtual  bool
	now      time.Time
	events   []*event
	seq      int
	nowCalls atomic.Int64
	nowWait  atomic.Int64 // how long a tick waits for the process to quiesce (ns)
	// AutoAdvance makes Sleep and a receive-less After/Sleep move the virtual
	// clock themselves (single-threaded scenarios such as RetryWithDelay).
	autoAdvance bool
	// TickWait bounds how long Advance waits for a ticker's reader.
	tickWait = 2 * time.Second
	// tickMisses counts ticks nobody received in time (a dead janitor).
	tickMisses atomic.Int64
	// Spawn runs a due AfterFunc callback; the default calls it synchronously
	// from Advance. A controlled scheduler may install its own.
	Spawn = func(f func()) { f() }
	// OnJump, when set, is told every forward jump of the virtual clock at the moment it
	// happens (before anything that falls due at the new instant runs), so that a driver's
	// event log shows callbacks and whatever they let other threads do at the right instant.
	OnJump func(d Duration)
)

// Base is the instant the virtual clock starts at: later than any real instant the code under test may
// have sampled before the virtual clock was switched on (a package-level `epoch = time.Now()`).
var Base = time.Unix(4_000_000_000, 0)

// Enable switches to a fresh virtual clock at Base.
func Enable(auto bool) {
	if nowWait.Load() == 0 {
		nowWait.Store(int64(2 * time.Second))
	}
	mu.Lock()
	virtual, now, events, seq, autoAdvance = true, Base, nil, 0, auto
	mu.Unlock()
}

// Disable returns to the real clock.
func Disable() {
	mu.Lock()
	virtual, events = false, nil
	mu.Unlock()
}

// Virtual reports whether the virtual clock is active.
func Virtual() bool { mu.Lock(); defer mu.Unlock(); return virtual }

// Elapsed is the virtual time since Base.
func Elapsed() Duration { mu.Lock(); defer mu.Unlock(); return now.Sub(Base) }

// NowCalls counts clock reads (used for barriers).
func NowCalls() int64 { return nowCalls.Load() }

// TickMisses counts ticker ticks that found no reader.
func TickMisses() int64 { return tickMisses.Load() }

// SetTickWait changes the reader timeout.
func SetTickWait(d time.Duration) { mu.Lock(); tickWait = d; mu.Unlock() }

// Pending is the number of armed timers and tickers.
func Pending() int {
	mu.Lock()
	defer mu.Unlock()
	n := 0
	for _, e := range events {
		if !e.dead {
			n++
		}
	}
	return n
}

func Now() Time {
	nowCalls.Add(1)
	mu.Lock()
	defer mu.Unlock()
	if !virtual {
		return time.Now()
	}
	return now
}

func Since(t Time) Duration { return Now().Sub(t) }
func Until(t Time) Duration { return t.Sub(Now()) }

func addEvent(d time.Duration, e *event) *event {
	// caller holds mu
	if d < 0 {
		d = 0
	}
	seq++
	e.at, e.seq = now.Add(d), seq
	events = append(events, e)
	return e
}

// Advance moves the virtual clock forward by d, firing what falls due in
// deadline (then creation) order. Callbacks run outside the clock's lock.
func Advance(d Duration) {
	mu.Lock()
	if !virtual {
		mu.Unlock()
		time.Sleep(d)
		return
	}
	target := now.Add(d)
	for {
		var due []*event
		for _, e := range events {
			if !e.dead && !e.at.After(target) {
				due = append(due, e)
			}
		}
		if len(due) == 0 {
			break
		}
		sort.Slice(due, func(i, j int) bool {
			if !due[i].at.Equal(due[j].at) {
				return due[i].at.Before(due[j].at)
			}
			return due[i].seq < due[j].seq
		})
		e := due[0]
		var jump Duration
		if e.at.After(now) {
			jump = e.at.Sub(now)
			now = e.at
		}
		if e.period > 0 {
			e.at = e.at.Add(e.period)
		} else {
			e.dead = true
		}
		at, wait := now, tickWait
		mu.Unlock()
		if jump > 0 && OnJump != nil {
			OnJump(jump)
		}
		switch {
		case e.fn != nil:
			Spawn(e.fn)
		case e.period > 0:
			deliverTick(e, at, wait)
		default:
			select {
			case e.ch <- at:
				// a one-shot timer read through its channel (a cleanup loop built on time.Timer, a
				// select on time.After): let the reader do what the expiry makes it do - including
				// re-arming the timer - at this virtual instant, before the clock moves on
				Quiesce(wait)
			default:
			}
		}
		mu.Lock()
	}
	// drop dead events
	live := events[:0]
	for _, e := range events {
		if !e.dead {
			live = append(live, e)
		}
	}
	events = live
	var jump Duration
	if target.After(now) {
		jump = target.Sub(now)
		now = target
	}
	mu.Unlock()
	if jump > 0 && OnJump != nil {
		OnJump(jump)
	}
}

// deliverTick hands one tick to the ticker's reader (the channel is unbuffered: the reader has to be at
// its receive, otherwise the tick counts as missed after `wait`) and then waits until the reader - and
// whatever it set in motion - has run to its next blocking point, so that the work the tick causes
// happens at this virtual instant and is over before the driver observes or moves the clock again.
func deliverTick(e *event, at time.Time, wait time.Duration) {
	t := time.NewTimer(wait)
	defer t.Stop()
	select {
	case e.ch <- at:
	case <-t.C:
		tickMisses.Add(1)
		mu.Lock()
		if tickWait > 20*time.Millisecond {
			tickWait = 20 * time.Millisecond // a reader that is gone stays gone
		}
		mu.Unlock()
		return
	}
	Quiesce(time.Duration(nowWait.Load()))
}

// Quiesce waits (at most max) until every other goroutine of the process is blocked - in a channel
// operation, a select, a lock, a wait - twice in a row: whatever the last event set in motion has run
// to its next blocking point.  It reports whether that state was reached.
func Quiesce(max time.Duration) bool {
	deadline := time.Now().Add(max)
	qmu.Lock()
	defer qmu.Unlock()
	buf := qbuf
	stable := 0
	for {
		n := runtime.Stack(buf, true)
		if n == len(buf) {
			buf = make([]byte, 2*len(buf))
			qbuf = buf // the next call starts with a buffer that is large enough
			continue
		}
		if othersBlocked(buf[:n]) {
			stable++
			if stable >= 2 {
				return true
			}
		} else {
			stable = 0
		}
		if time.Now().After(deadline) {
			quiesceMisses.Add(1)
			if f := os.Getenv("VTIME_QDEBUG"); f != "" {
				if fh, err := os.OpenFile(f, os.O_APPEND|os.O_CREATE|os.O_WRONLY, 0o644); err == nil {
					fh.Write(buf[:n])
					fh.WriteString("\n=====\n")
					fh.Close()
				}
			}
			return false
		}
		runtime.Gosched()
	}
}

var quiesceMisses atomic.Int64

// the dump buffer is kept between calls (a process with thousands of parked goroutines needs megabytes)
var (
	qmu  sync.Mutex
	qbuf = make([]byte, 1<<16)
)

// QuiesceMisses counts the waits for quiescence that ran out of time.
func QuiesceMisses() int64 { return quiesceMisses.Load() }

// blockedStates are the goroutine states (as printed in a stack dump) in which a goroutine cannot move
// before somebody else does something; every other state - running, runnable, syscall, preempted,
// the garbage collector's assist states - counts as active.
var blockedStates = map[string]bool{
	"chan receive": true, "chan send": true, "select": true, "select (no cases)": true,
	"chan receive (nil chan)": true, "chan send (nil chan)": true,
	"semacquire": true, "sync.Mutex.Lock": true, "sync.RWMutex.RLock": true, "sync.RWMutex.Lock": true,
	"sync.Cond.Wait": true, "sync.WaitGroup.Wait": true, "sleep": true, "IO wait": true,
	"finalizer wait": true, "GC worker (idle)": true, "force gc (idle)": true, "GC sweep wait": true,
	"GC scavenge wait": true, "timer goroutine (idle)": true, "cleanup wait": true,
}

// othersBlocked parses an all-goroutine stack dump: the first record is the caller; every other
// goroutine must be in a state other than running / runnable.
func othersBlocked(dump []byte) bool {
	recs := bytes.Split(dump, []byte("\n\n"))
	for i, r := range recs {
		if i == 0 || !bytes.HasPrefix(r, []byte("goroutine ")) {
			continue
		}
		a := bytes.IndexByte(r, '[')
		b := bytes.IndexByte(r, ']')
		if a < 0 || b < a {
			continue
		}
		st := r[a+1 : b]
		if c := bytes.IndexByte(st, ','); c >= 0 {
			st = st[:c]
		}
		if !blockedStates[string(st)] {
			return false
		}
	}
	return true
}

// Sleep pauses the caller; on the virtual clock with auto-advance it moves
// the clock instead.
func Sleep(d Duration) {
	mu.Lock()
	v, a := virtual, autoAdvance
	mu.Unlock()
	if !v {
		time.Sleep(d)
		return
	}
	if a {
		Advance(d)
		return
	}
	<-After(d)
}

// ------------------------------------------------------------------ timers

type Timer struct {
	C <-chan Time
	r *time.Timer
	e *event
}

func AfterFunc(d Duration, f func()) *Timer {
	mu.Lock()
	defer mu.Unlock()
	if !virtual {
		return &Timer{r: time.AfterFunc(d, f)}
	}
	return &Timer{e: addEvent(d, &event{fn: f})}
}

func NewTimer(d Duration) *Timer {
	mu.Lock()
	if !virtual {
		mu.Unlock()
		r := time.NewTimer(d)
		return &Timer{C: r.C, r: r}
	}
	ch := make(chan time.Time, 1)
	e := addEvent(d, &event{ch: ch})
	a := autoAdvance
	mu.Unlock()
	if a {
		Advance(d)
	}
	return &Timer{C: ch, e: e}
}

func After(d Duration) <-chan Time { return NewTimer(d).C }

func (t *Timer) Stop() bool {
	if t.r != nil {
		return t.r.Stop()
	}
	mu.Lock()
	defer mu.Unlock()
	was := !t.e.dead
	t.e.dead = true
	return was
}

func (t *Timer) Reset(d Duration) bool {
	if t.r != nil {
		return t.r.Reset(d)
	}
	mu.Lock()
	was := !t.e.dead
	t.e.dead = true
	ne := &event{fn: t.e.fn, ch: t.e.ch}
	t.e = addEvent(d, ne)
	a := autoAdvance && ne.ch != nil
	mu.Unlock()
	if a {
		Advance(d) // as in NewTimer: with auto-advance a wait moves the clock itself
	}
	return was
}

type Ticker struct {
	C <-chan Time
	r *time.Ticker
	e *event
}

func NewTicker(d Duration) *Ticker {
	if d <= 0 {
		panic("non-positive interval for NewTicker")
	}
	mu.Lock()
	defer mu.Unlock()
	if !virtual {
		r := time.NewTicker(d)
		return &Ticker{C: r.C, r: r}
	}
	ch := make(chan time.Time) // unbuffered: see deliverTick
	return &Ticker{C: ch, e: addEvent(d, &event{ch: ch, period: d})}
}

func Tick(d Duration) <-chan Time {
	if d <= 0 {
		return nil
	}
	return NewTicker(d).C
}

func (t *Ticker) Stop() {
	if t.r != nil {
		t.r.Stop()
		return
	}
	mu.Lock()
	t.e.dead = true
	mu.Unlock()
}

func (t *Ticker) Reset(d Duration) {
	if t.r != nil {
		t.r.Reset(d)
		return
	}
	mu.Lock()
	t.e.dead = true
	t.e = addEvent(d, &event{ch: t.e.ch, period: d})
	mu.Unlock()
}
