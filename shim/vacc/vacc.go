// Package vacc holds the access probes the rewriter inserts into the scratch
// copy of the lock-guarded containers (DESIGN.md section 5, transformation 3).
// Each wrapper is an identity function on a pointer (or a map) that reports
// the access - address range, read or write, source site - to the scheduler
// shim, which knows the calling model thread and the locks it holds.
package vacc

import (
	"reflect"
	"strings"
	"sync"
	"unsafe"

	"github.com/esimov/gogu/zzshim/vsync"
)

var (
	mu    sync.Mutex
	leafs = map[reflect.Type][]uintptr{}
)

// leaf cells of a value of type t (offsets): a struct is the set of its fields, recursively, without its locks
func cells(t reflect.Type) []uintptr {
	mu.Lock()
	defer mu.Unlock()
	if c, ok := leafs[t]; ok {
		return c
	}
	var out []uintptr
	var walk func(t reflect.Type, base uintptr)
	walk = func(t reflect.Type, base uintptr) {
		switch t.Kind() {
		case reflect.Struct:
			p := t.PkgPath()
			if p == "sync" || p == "sync/atomic" || strings.HasSuffix(p, "/zzshim/vsync") {
				return
			}
			for i := 0; i < t.NumField(); i++ {
				f := t.Field(i)
				walk(f.Type, base+f.Offset)
			}
		case reflect.Array:
			for i := 0; i < t.Len(); i++ {
				walk(t.Elem(), base+uintptr(i)*t.Elem().Size())
			}
		default:
			out = append(out, base)
		}
	}
	walk(t, 0)
	leafs[t] = out
	return out
}

func report[T any](p *T, write bool, site int) {
	if p == nil || !vsync.Tracking() {
		return
	}
	vsync.Access(unsafe.Pointer(p), cells(reflect.TypeOf(p).Elem()), write, site)
}

// R reports a read of *p and returns p.
func R[T any](p *T, site int) *T { report(p, false, site); return p }

// W reports a write of *p and returns p.
func W[T any](p *T, site int) *T { report(p, true, site); return p }

func mapAccess(m any, write bool, site int) {
	if !vsync.Tracking() {
		return
	}
	v := reflect.ValueOf(m)
	if v.Kind() != reflect.Map || v.IsNil() {
		return
	}
	vsync.Access(v.UnsafePointer(), []uintptr{0}, write, site)
}

// MR reports a read of the map (lookup, len, range) and returns it.
func MR[M ~map[K]V, K comparable, V any](m M, site int) M { mapAccess(m, false, site); return m }

// MW reports a write of the map (assignment to an element, delete) and returns it.
func MW[M ~map[K]V, K comparable, V any](m M, site int) M { mapAccess(m, true, site); return m }

// Mid sits between the read and the write of a split x.f++ / x.f--: a thread that holds no lock
// may be preempted here.
func Mid() { vsync.BarePoint() }

func elems[T any](s []T, from, to int, write bool, site int) {
	if !vsync.Tracking() || to <= from || cap(s) == 0 {
		return
	}
	full := s[:cap(s)]
	sz := unsafe.Sizeof(full[0])
	if sz == 0 {
		return
	}
	offs := make([]uintptr, 0, to-from)
	for i := from; i < to && i < cap(s); i++ {
		offs = append(offs, uintptr(i)*sz)
	}
	vsync.Access(unsafe.Pointer(&full[0]), offs, write, site)
}

// RS reports a read of every element of s (a range loop, the source of a copy) and returns s.
func RS[S ~[]T, T any](s S, site int) S { elems([]T(s), 0, len(s), false, site); return s }

// CW reports a write of every element of s (the destination of a copy) and returns s.
func CW[S ~[]T, T any](s S, site int) S { elems([]T(s), 0, len(s), true, site); return s }

// AP sits on the first argument of append: appending n values (n < 0: unknown, the whole spare
// capacity) writes the elements behind len when the capacity allows.
func AP[S ~[]T, T any](s S, n int, site int) S {
	to := len(s) + n
	if n < 0 || to > cap(s) {
		to = cap(s)
	}
	if n >= 0 && len(s)+n > cap(s) {
		return s // reallocation: nothing behind len is touched
	}
	elems([]T(s), len(s), to, true, site)
	return s
}
