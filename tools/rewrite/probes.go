package main

import (
	"encoding/json"
	"fmt"
	"go/ast"
	"go/format"
	"go/token"
	"go/types"
	"os"
	"path/filepath"
	"strconv"
	"strings"

	"golang.org/x/tools/go/ast/astutil"
	"golang.org/x/tools/go/packages"
)

// Access probes (DESIGN.md section 5, transformation 3). Every addressable
// selection of a struct field, every slice/array element expression and every
// whole-struct dereference in the listed packages becomes
//
//	(*vacc.R(&x.f, site))           in read position
//	*vacc.W(&x.f, site) = v         on the left of =, op=, ++ and --
//
// and map reads / writes / delete / range go through vacc.MR(m) / vacc.MW(m).
// The wrappers are identity functions evaluated exactly where the original
// expression was; they report (thread, address range, read|write, site) to the
// scheduler shim. Fields of lock types and operands of & are left alone.

const vaccPath = shimBase + "vacc"

type site struct {
	ID   int    `json:"id"`
	Pos  string `json:"pos"`
	Expr string `json:"expr"`
	Kind string `json:"kind"`
}

type action struct {
	kind string // "r", "w", "skip", "mr", "mw", "star-r", "star-w"
}

func instrument(dir string, pkgs []string) (int, error) {
	abs, err := filepath.Abs(dir)
	if err != nil {
		return 0, err
	}
	var pats []string
	for _, p := range pkgs {
		p = strings.TrimSpace(p)
		if p == "" {
			continue
		}
		pats = append(pats, "./"+strings.TrimPrefix(p, "./"))
	}
	cfg := &packages.Config{
		Mode: packages.NeedName | packages.NeedFiles | packages.NeedCompiledGoFiles | packages.NeedSyntax |
			packages.NeedTypes | packages.NeedTypesInfo | packages.NeedImports | packages.NeedDeps,
		Dir:   abs,
		Env:   append(os.Environ(), "GOFLAGS=-mod=mod", "GOPROXY=off", "GOSUMDB=off", "GOTOOLCHAIN=local"),
		Tests: false,
	}
	loaded, err := packages.Load(cfg, pats...)
	if err != nil {
		return 0, err
	}
	if packages.PrintErrors(loaded) > 0 {
		return 0, fmt.Errorf("the scratch copy does not type-check")
	}
	var sites []site
	for _, pkg := range loaded {
		modPath := ""
		if pkg.Module != nil {
			modPath = pkg.Module.Path
		}
		_ = modPath
		for i, f := range pkg.Syntax {
			name := pkg.CompiledGoFiles[i]
			if strings.HasSuffix(name, "_test.go") || strings.Contains(name, "/zzshim/") {
				continue
			}
			n := rewriteFile(pkg, f, &sites)
			if n == 0 {
				continue
			}
			astutil.AddNamedImport(pkg.Fset, f, "vacc", vaccPath)
			out, err := os.Create(name)
			if err != nil {
				return 0, err
			}
			if err := format.Node(out, pkg.Fset, f); err != nil {
				out.Close()
				return 0, fmt.Errorf("%s: %v", name, err)
			}
			out.Close()
		}
	}
	b, _ := json.MarshalIndent(sites, "", " ")
	if err := os.WriteFile(filepath.Join(abs, "zzshim", "sites.json"), b, 0o644); err != nil {
		return 0, err
	}
	return len(sites), nil
}

func isLockType(t types.Type) bool {
	for {
		if p, ok := t.(*types.Pointer); ok {
			t = p.Elem()
			continue
		}
		break
	}
	n, ok := t.(*types.Named)
	if !ok {
		return false
	}
	if n.Obj().Pkg() == nil {
		return false
	}
	p := n.Obj().Pkg().Path()
	if p == "sync" || strings.HasSuffix(p, "/zzshim/vsync") || p == "sync/atomic" {
		return true
	}
	return false
}

func isStructVal(t types.Type) bool {
	if t == nil {
		return false
	}
	_, ok := t.Underlying().(*types.Struct)
	return ok
}

func isMap(t types.Type) bool {
	if t == nil {
		return false
	}
	_, ok := t.Underlying().(*types.Map)
	return ok
}

func rewriteFile(pkg *packages.Package, f *ast.File, sites *[]site) int {
	info := pkg.TypesInfo
	fset := pkg.Fset
	acts := map[ast.Node]string{}
	count := 0

	writeCtx := func(c *astutil.Cursor) bool {
		switch p := c.Parent().(type) {
		case *ast.AssignStmt:
			return c.Name() == "Lhs" && p.Tok != token.DEFINE
		case *ast.IncDecStmt:
			return true
		}
		return false
	}
	addrCtx := func(c *astutil.Cursor) bool {
		if u, ok := c.Parent().(*ast.UnaryExpr); ok && u.Op == token.AND {
			return true
		}
		return false
	}
	// declared inside this module (never a field of a standard-library struct)
	localField := func(sel *ast.SelectorExpr) bool {
		s, ok := info.Selections[sel]
		if !ok || s.Kind() != types.FieldVal {
			return false
		}
		o := s.Obj()
		if o.Pkg() == nil || strings.Contains(o.Pkg().Path(), "/zzshim/") {
			return false
		}
		return strings.HasPrefix(o.Pkg().Path(), "github.com/esimov/gogu")
	}

	pre := func(c *astutil.Cursor) bool {
		switch n := c.Node().(type) {
		case *ast.FuncDecl:
			if n.Body == nil {
				return false
			}
		case *ast.SelectorExpr:
			if !localField(n) {
				return true
			}
			tv, ok := info.Types[n]
			if !ok || !tv.Addressable() || isLockType(tv.Type) {
				return true
			}
			if addrCtx(c) {
				return true
			}
			// x.f.g / x.f[i] / x.f.M(): x.f is only part of an address computation when it is a struct or array value
			if isStructVal(tv.Type) {
				if _, ok := c.Parent().(*ast.SelectorExpr); ok && c.Name() == "X" {
					return true
				}
			}
			if _, isArr := tv.Type.Underlying().(*types.Array); isArr {
				return true
			}
			if rs, ok := c.Parent().(*ast.RangeStmt); ok && (c.Name() == "Key" || c.Name() == "Value") {
				_ = rs
				return true
			}
			if writeCtx(c) {
				acts[n] = "w"
			} else {
				acts[n] = "r"
			}
		case *ast.IndexExpr:
			tv, ok := info.Types[n.X]
			if !ok || tv.IsType() || tv.Type == nil {
				return true
			}
			if isMap(tv.Type) {
				// only maps reached through a field of ours (shared state); locals are private
				if !mentionsLocalField(n.X, localField) {
					return true
				}
				if writeCtx(c) {
					acts[n] = "mw"
				} else {
					acts[n] = "mr"
				}
				return true
			}
			if _, isSlice := tv.Type.Underlying().(*types.Slice); !isSlice {
				return true
			}
			etv, ok := info.Types[n]
			if !ok || !etv.Addressable() || addrCtx(c) {
				return true
			}
			// also slices held in locals and parameters: a header copied out of a critical section still
			// points into the shared backing array
			if writeCtx(c) {
				acts[n] = "w"
			} else {
				acts[n] = "r"
			}
		case *ast.StarExpr:
			tv, ok := info.Types[n]
			if !ok || tv.IsType() || !isStructVal(tv.Type) {
				return true
			}
			if nn, ok := tv.Type.(*types.Named); ok {
				if nn.Obj().Pkg() == nil || !strings.HasPrefix(nn.Obj().Pkg().Path(), "github.com/esimov/gogu") {
					return true
				}
			} else {
				return true
			}
			if addrCtx(c) {
				return true
			}
			if _, ok := c.Parent().(*ast.SelectorExpr); ok && c.Name() == "X" {
				return true
			}
			if writeCtx(c) {
				acts[n] = "star-w"
			} else {
				acts[n] = "star-r"
			}
		case *ast.RangeStmt:
			if tv, ok := info.Types[n.X]; ok && isMap(tv.Type) && mentionsLocalField(n.X, localField) {
				acts[n] = "range-m"
			} else if ok && tv.Type != nil {
				if _, isSlice := tv.Type.Underlying().(*types.Slice); isSlice && n.Value != nil {
					acts[n] = "range-s" // the loop reads every element
				}
			}
		case *ast.IncDecStmt:
			// x.f++ is a read, then a write: split it so that a thread holding no lock can be
			// preempted in between (a counter bumped outside the critical section loses updates)
			if sel, ok := n.X.(*ast.SelectorExpr); ok && localField(sel) {
				if tv, ok := info.Types[sel]; ok && tv.Addressable() && !isLockType(tv.Type) {
					if _, inBlock := c.Parent().(*ast.BlockStmt); inBlock {
						acts[n] = "incdec"
					}
				}
			}
		case *ast.CallExpr:
			if id, ok := n.Fun.(*ast.Ident); ok && len(n.Args) >= 1 {
				if b, ok := info.Uses[id].(*types.Builtin); ok {
					if tv, ok2 := info.Types[n.Args[0]]; ok2 && isMap(tv.Type) && mentionsLocalField(n.Args[0], localField) {
						switch b.Name() {
						case "delete":
							acts[n] = "delete-m"
						case "len":
							acts[n] = "len-m"
						}
					}
					if tv, ok2 := info.Types[n.Args[0]]; ok2 && tv.Type != nil {
						if _, isSlice := tv.Type.Underlying().(*types.Slice); isSlice {
							switch b.Name() {
							case "append":
								if !n.Ellipsis.IsValid() || len(n.Args) == 2 {
									acts[n] = "append-s" // may write into the spare capacity behind len
								}
							case "copy":
								acts[n] = "copy-s"
							}
						}
					}
				}
			}
		}
		return true
	}

	newSite := func(n ast.Node, kind string) *ast.BasicLit {
		count++
		id := len(*sites) + 1
		var sb strings.Builder
		format.Node(&sb, fset, n)
		p := fset.Position(n.Pos())
		*sites = append(*sites, site{ID: id, Pos: fmt.Sprintf("%s:%d:%d", filepath.Base(filepath.Dir(p.Filename))+"/"+filepath.Base(p.Filename), p.Line, p.Column), Expr: sb.String(), Kind: kind})
		return &ast.BasicLit{Kind: token.INT, Value: strconv.Itoa(id)}
	}
	call := func(fn string, args ...ast.Expr) *ast.CallExpr {
		return &ast.CallExpr{Fun: &ast.SelectorExpr{X: ast.NewIdent("vacc"), Sel: ast.NewIdent(fn)}, Args: args}
	}

	post := func(c *astutil.Cursor) bool {
		n := c.Node()
		a, ok := acts[n]
		if !ok {
			return true
		}
		switch a {
		case "r", "w":
			e := n.(ast.Expr)
			fn := "R"
			if a == "w" {
				fn = "W"
			}
			s := newSite(n, a)
			repl := &ast.StarExpr{X: call(fn, &ast.UnaryExpr{Op: token.AND, X: e}, s)}
			if a == "w" {
				c.Replace(repl)
			} else {
				c.Replace(&ast.ParenExpr{X: repl})
			}
		case "star-r", "star-w":
			st := n.(*ast.StarExpr)
			fn := "R"
			if a == "star-w" {
				fn = "W"
			}
			s := newSite(n, a)
			repl := &ast.StarExpr{X: call(fn, st.X, s)}
			if a == "star-w" {
				c.Replace(repl)
			} else {
				c.Replace(&ast.ParenExpr{X: repl})
			}
		case "mr", "mw":
			ix := n.(*ast.IndexExpr)
			fn := "MR"
			if a == "mw" {
				fn = "MW"
			}
			ix.X = call(fn, ix.X, newSite(n, a))
		case "incdec":
			st := n.(*ast.IncDecStmt)
			// st.X has been rewritten to *vacc.W(&x.f, site) by now
			star, ok := st.X.(*ast.StarExpr)
			if !ok {
				return true
			}
			p, v := ast.NewIdent("vaccP"), ast.NewIdent("vaccV")
			op := token.ADD
			if st.Tok == token.DEC {
				op = token.SUB
			}
			c.Replace(&ast.BlockStmt{List: []ast.Stmt{
				&ast.AssignStmt{Lhs: []ast.Expr{p}, Tok: token.DEFINE, Rhs: []ast.Expr{star.X}},
				&ast.AssignStmt{Lhs: []ast.Expr{v}, Tok: token.DEFINE, Rhs: []ast.Expr{&ast.StarExpr{X: p}}},
				&ast.ExprStmt{X: call("Mid")},
				&ast.AssignStmt{Lhs: []ast.Expr{&ast.StarExpr{X: p}}, Tok: token.ASSIGN,
					Rhs: []ast.Expr{&ast.BinaryExpr{X: v, Op: op, Y: &ast.BasicLit{Kind: token.INT, Value: "1"}}}},
			}})
		case "range-m":
			r := n.(*ast.RangeStmt)
			r.X = call("MR", r.X, newSite(r.X, "mr"))
		case "range-s":
			r := n.(*ast.RangeStmt)
			r.X = call("RS", r.X, newSite(r.X, "rs"))
		case "append-s":
			ce := n.(*ast.CallExpr)
			nargs := &ast.BasicLit{Kind: token.INT, Value: strconv.Itoa(len(ce.Args) - 1)}
			if ce.Ellipsis.IsValid() {
				nargs = &ast.BasicLit{Kind: token.INT, Value: "-1"}
			}
			ce.Args[0] = call("AP", ce.Args[0], nargs, newSite(n, "ap"))
		case "copy-s":
			ce := n.(*ast.CallExpr)
			ce.Args[0] = call("CW", ce.Args[0], newSite(n, "cw"))
			if len(ce.Args) > 1 {
				if tv, ok := info.Types[ce.Args[1]]; ok && tv.Type != nil {
					if _, isSlice := tv.Type.Underlying().(*types.Slice); isSlice {
						ce.Args[1] = call("RS", ce.Args[1], newSite(n, "rs"))
					}
				}
			}
		case "delete-m":
			ce := n.(*ast.CallExpr)
			ce.Args[0] = call("MW", ce.Args[0], newSite(n, "mw"))
		case "len-m":
			ce := n.(*ast.CallExpr)
			ce.Args[0] = call("MR", ce.Args[0], newSite(n, "mr"))
		}
		return true
	}
	astutil.Apply(f, pre, post)
	return count
}

// mentionsLocalField: the expression reaches its value through a field of one of our structs
func mentionsLocalField(e ast.Expr, localField func(*ast.SelectorExpr) bool) bool {
	found := false
	ast.Inspect(e, func(n ast.Node) bool {
		if s, ok := n.(*ast.SelectorExpr); ok && localField(s) {
			found = true
		}
		return !found
	})
	return found
}
