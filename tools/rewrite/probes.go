package main

import "fmt"

func instrument(dir string, pkgs []string) (int, error) {
	return 0, fmt.Errorf("access probes not built yet")
}
