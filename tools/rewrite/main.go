// Command rewrite prepares the scratch copy of esimov/gogu for the timing and
// concurrency checks (DESIGN.md section 5). It never touches /repo.
//
//	rewrite -dir <scratch>/gogu -imports            redirect "sync" and "time" to the zzshim packages
//	rewrite -dir <scratch>/gogu -probes pkg,pkg     additionally wrap field/element accesses (C01)
//
// Import redirection is purely syntactic (go/parser) so that it keeps working
// on any tree that parses; access probes need type information (go/packages).
package main

import (
	"flag"
	"fmt"
	"go/ast"
	"go/format"
	"go/parser"
	"go/token"
	"os"
	"path/filepath"
	"strconv"
	"strings"
)

const shimBase = "github.com/esimov/gogu/zzshim/"

var redirect = map[string]string{
	"sync":                           shimBase + "vsync",
	"time":                           shimBase + "vtime",
	"golang.org/x/sync/singleflight": shimBase + "singleflight",
}

func main() {
	dir := flag.String("dir", "", "root of the scratch copy")
	imports := flag.Bool("imports", false, "redirect sync/time imports")
	only := flag.String("only", "sync,time,golang.org/x/sync/singleflight", "which imports to redirect")
	probes := flag.String("probes", "", "comma separated package directories (relative) to instrument with access probes")
	flag.Parse()
	if *dir == "" {
		fmt.Fprintln(os.Stderr, "rewrite: -dir required")
		os.Exit(2)
	}
	want := map[string]bool{}
	for _, s := range strings.Split(*only, ",") {
		want[strings.TrimSpace(s)] = true
	}
	n := 0
	if *imports {
		err := filepath.Walk(*dir, func(p string, fi os.FileInfo, err error) error {
			if err != nil {
				return err
			}
			if fi.IsDir() {
				if fi.Name() == "zzshim" {
					return filepath.SkipDir
				}
				return nil
			}
			if !strings.HasSuffix(p, ".go") || strings.HasSuffix(p, "_test.go") {
				return nil
			}
			c, err := redirectFile(p, want)
			n += c
			return err
		})
		if err != nil {
			fmt.Fprintln(os.Stderr, "rewrite:", err)
			os.Exit(2)
		}
	}
	sites := 0
	if *probes != "" {
		var err error
		sites, err = instrument(*dir, strings.Split(*probes, ","))
		if err != nil {
			fmt.Fprintln(os.Stderr, "rewrite:", err)
			os.Exit(2)
		}
	}
	fmt.Printf("{\"imports_redirected\": %d, \"probe_sites\": %d}\n", n, sites)
}

func redirectFile(path string, want map[string]bool) (int, error) {
	fset := token.NewFileSet()
	f, err := parser.ParseFile(fset, path, nil, parser.ParseComments)
	if err != nil {
		return 0, err
	}
	n := 0
	for _, im := range f.Imports {
		p, _ := strconv.Unquote(im.Path.Value)
		to, ok := redirect[p]
		if !ok || !want[p] {
			continue
		}
		if im.Name == nil {
			base := p[strings.LastIndex(p, "/")+1:]
			im.Name = ast.NewIdent(base)
		}
		im.Path.Value = strconv.Quote(to)
		n++
	}
	if n == 0 {
		return 0, nil
	}
	out, err := os.Create(path)
	if err != nil {
		return 0, err
	}
	defer out.Close()
	return n, format.Node(out, fset, f)
}
