module veriftools

go 1.20

require golang.org/x/tools v0.29.0
